"""Pure-hydro runs of the real --task-based-rhd binary with the H-hydro-state hook, and parsing of its records."""
import math
import os
import re
import struct

import binrun
import params

EPS = 2.220446049250313e-16


def gen_state(rng, ncell, box, kind=None, gamma=5. / 3.):
    """Random initial state as BlockSyntax blocks (first block covers the box)."""
    anchor, sides = box
    kind = kind or rng.choice(["boxes", "boxes", "vacuum", "smooth", "shock"])
    ctr = [anchor[i] + 0.5 * sides[i] for i in range(3)]
    # temperatures such that sound speeds are ~1e3 m/s (T~100 K), velocities relative to that
    def vel(scale):
        return [rng.uniform(-1, 1) * scale for _ in range(3)]
    blocks = [dict(origin=ctr, sides=[1.0001 * s for s in sides], density=10 ** rng.uniform(18, 21), temperature=10 ** rng.uniform(1.5, 3.5),
                   velocity=vel(rng.choice([0., 30., 300., 3000.])))]
    if kind == "cold":
        # pressureless gas (T = 0 K exactly: rho > 0, P = 0, a legal state) embedded in dense warm gas (P up to tens of Pa)
        blocks[0].update(density=10 ** rng.uniform(20, 21.3), temperature=10 ** rng.uniform(2.5, 3.5), velocity=vel(rng.choice([0., 0., 100.])))
        for _ in range(rng.randint(1, 3)):
            blocks.append(dict(origin=[anchor[i] + rng.uniform(.2, .8) * sides[i] for i in range(3)],
                               sides=[rng.uniform(.25, .8) * sides[i] for i in range(3)], type=rng.choice(["cube", "cube", "sphere"]),
                               density=10 ** rng.uniform(19, 21.3), temperature=0., velocity=vel(rng.choice([0., 0., 100., 1000.]))))
    elif kind in ("boxes", "vacuum", "shock"):
        for _ in range(rng.randint(1, 5)):
            dens = 10 ** rng.uniform(9, 21) if kind != "vacuum" else rng.choice([0., 10 ** rng.uniform(3, 12), 10 ** rng.uniform(18, 21)])
            blocks.append(dict(origin=[anchor[i] + rng.uniform(.1, .9) * sides[i] for i in range(3)],
                               sides=[rng.uniform(.15, .7) * sides[i] for i in range(3)], type=rng.choice(["cube", "cube", "sphere"]),
                               density=dens, temperature=10 ** rng.uniform(1., 4.),
                               velocity=vel(rng.choice([0., 100., 1000., 5000. if kind == "shock" else 300.]))))
    else:  # smooth: one block per cell with a sinusoidal field
        kx = [rng.randint(1, 2) for _ in range(3)]
        ph = [rng.uniform(0, 6.28) for _ in range(6)]
        rho0, T0 = 10 ** rng.uniform(18, 21), 10 ** rng.uniform(1.5, 3.5)
        a1, a2 = rng.uniform(0, .6), rng.uniform(0, .6)
        v0 = rng.choice([0., 50., 500.])
        for ix in range(ncell[0]):
            for iy in range(ncell[1]):
                for iz in range(ncell[2]):
                    f = [(ix + .5) / ncell[0], (iy + .5) / ncell[1], (iz + .5) / ncell[2]]
                    s = [math.sin(2 * math.pi * kx[d] * f[d] + ph[d]) for d in range(3)]
                    blocks.append(dict(origin=[anchor[d] + f[d] * sides[d] for d in range(3)], sides=[sides[d] / ncell[d] * 1.0001 for d in range(3)],
                                       density=rho0 * (1 + a1 * s[0] * s[1]), temperature=T0 * (1 + a2 * s[1] * s[2]),
                                       velocity=[v0 * math.sin(2 * math.pi * f[(d + 1) % 3] + ph[3 + d]) for d in range(3)]))
    return blocks, kind


REC = re.compile(r"(\w+)=(\S+)")


def parse_log(path):
    out = []
    if not os.path.exists(path):
        return out
    for line in open(path):
        if not line.startswith("HYDRO "):
            continue
        d = {}
        for k, v in REC.findall(line):
            if k in ("step", "ncell", "nonfinite", "negative", "clamps", "badindex"):
                d[k] = int(v)
            elif k == "digest":
                d[k] = v
            elif v.startswith(("0x", "-0x")) or "p" in v and "x" in v:
                d[k] = float.fromhex(v)
            else:
                d[k] = float(v)
        out.append(d)
    return out


def read_dump(path):
    with open(path, "rb") as f:
        nx, ny, nz, nv = struct.unpack("<4Q", f.read(32))
        data = struct.unpack("<%dd" % (nx * ny * nz * nv), f.read(8 * nx * ny * nz * nv))
    return (nx, ny, nz, nv), data


def run(exe, rundir, cfg, threads=1, steps=3, jitter=None, dump=True, extra_env=None, extra_args=(), timeout=300, name="run.param"):
    os.makedirs(rundir, exist_ok=True)
    pf = params.rhd_params(cfg, rundir, name=name)
    log = os.path.join(rundir, "hydro.log")
    env = {"CMI_VERIF_HYDRO_LOG": log}
    if dump:
        env["CMI_VERIF_STATE_DUMP"] = os.path.join(rundir, "state_")
    if jitter:
        env["CMI_VERIF_JITTER"] = jitter
    if extra_env:
        env.update(extra_env)
    args = ["--params", pf, "--task-based-rhd"] + (["--number-of-steps", str(steps)] if steps else []) + list(extra_args)
    r = binrun.run_cmi(exe, rundir, args, env=env, timeout=timeout, threads=threads)
    if r.timed_out:
        if os.path.exists(log):
            os.remove(log)
        r = binrun.run_cmi(exe, rundir, args, env=env, timeout=timeout, threads=threads)
    return r, parse_log(log)


def scales(dims, data, gamma, cell_volume):
    """Per-cell round-off scales of the conserved variables from a 10-variable state dump:
    mass: m; momentum: m(|v|+a); energy: E + P V."""
    n = dims[0] * dims[1] * dims[2]
    sm = [0.] * n; sp = [0.] * n; se = [0.] * n
    for i in range(n):
        m, px, py, pz, E, rho, vx, vy, vz, P = data[10 * i:10 * i + 10]
        a = math.sqrt(gamma * P / rho) if rho > 0 and P > 0 else 0.
        v = math.sqrt(vx * vx + vy * vy + vz * vz)
        sm[i] = abs(m)
        sp[i] = abs(m) * (v + a) + math.sqrt(px * px + py * py + pz * pz)
        se[i] = abs(E) + abs(P) * cell_volume
    return sm, sp, se
