"""Generators for small CMacIonize parameter files (photoionization and RHD runs)."""
import os


def _vec(v, unit=""):
    u = (" " + unit) if unit else ""
    return "[" + ", ".join("%s%s" % (repr(float(x)) if not isinstance(x, (bool, int)) else (str(x).lower() if isinstance(x, bool) else str(x)), u) for x in v) + "]"


def photo_params(cfg, rundir):
    """cfg keys: ncell (3), nsub (3), periodic (3 bools), copy_level, nphoton, niter, seed,
    box (anchor3, sides3 in m), density (m^-3), sigma_H (m^2; fixed cross sections),
    sources: list of (x,y,z) in m, continuous: None|'Isotropic'|'Planar'|'DistantStar',
    diffuse: None|'FixedValue'|'Physical', writer: 'AsciiFile'|'Gadget',
    nbuffers, queue, shared_queue, ntasks, temperature (bool), cross: 'FixedValue'|'Verner'."""
    anchor, sides = cfg["box"]
    L = []
    L += ["SimulationBox:", "  anchor: " + _vec(anchor, "m"), "  sides: " + _vec(sides, "m"),
          "  periodicity: " + _vec(cfg["periodic"])]
    L += ["DensityGrid:", "  type: Cartesian", "  number of cells: " + _vec(cfg["ncell"])]
    L += ["DensitySubGridCreator:", "  number of subgrids: " + _vec(cfg["nsub"]),
          "  periodicity: " + _vec(cfg["periodic"])]
    L += ["DensityFunction:", "  type: Homogeneous", "  density: %r m^-3" % cfg["density"],
          "  temperature: 8000. K", "  neutral fraction H: %r" % cfg.get("xH", 1.0)]
    L += ["TemperatureCalculator:", "  do temperature calculation: %s" % str(bool(cfg.get("temperature"))).lower()]
    srcs = cfg.get("sources", [])
    if len(srcs) == 1:
        L += ["PhotonSourceDistribution:", "  type: SingleStar", "  position: " + _vec(srcs[0], "m"),
              "  luminosity: %r s^-1" % cfg.get("discrete_luminosity", cfg.get("luminosity", 1e49))]
    elif len(srcs) > 1:
        fn = os.path.join(rundir, "sources.yml")
        with open(fn, "w") as f:
            f.write("number of sources: %d\n" % len(srcs))
            for i, s in enumerate(srcs):
                f.write("source[%d]:\n  position: %s\n  luminosity: %r s^-1\n" % (i, _vec(s, "m"), cfg.get("discrete_luminosity", cfg.get("luminosity", 1e49)) * (1 + i)))
        L += ["PhotonSourceDistribution:", "  type: AsciiFile", "  filename: " + fn]
    else:
        L += ["PhotonSourceDistribution:", "  type: None"]
    L += ["PhotonSourceSpectrum:", "  type: Monochromatic", "  frequency: 13.6 eV"]
    cont = cfg.get("continuous")
    if cont:
        L += ["ContinuousPhotonSource:", "  type: " + cont]
        if cont == "Planar":
            L += ["  normal axis: z", "  intercept: %r m" % (anchor[2] + 0.01 * sides[2]),
                  "  anchor 0: %r m" % (anchor[0] + 0.1 * sides[0]), "  anchor 1: %r m" % (anchor[1] + 0.1 * sides[1]),
                  "  side 0: %r m" % (0.8 * sides[0]), "  side 1: %r m" % (0.8 * sides[1]),
                  "  luminosity: %r s^-1" % cfg.get("luminosity", 1e49)]
        elif cont == "DistantStar":
            L += ["  position: " + _vec([anchor[0] - 3 * sides[0], anchor[1] + 0.4 * sides[1], anchor[2] + 0.6 * sides[2]], "m")]
        L += ["ContinuousPhotonSourceSpectrum:", "  type: Monochromatic", "  frequency: 13.6 eV",
              "  total flux: %r m^-2 s^-1" % cfg.get("cont_flux", 1e10)]
    T = ["TaskBasedIonizationSimulation:", "  number of photons: %d" % cfg["nphoton"],
         "  number of iterations: %d" % cfg["niter"], "  source copy level: %d" % cfg.get("copy_level", 0),
         "  number of buffers: %d" % cfg.get("nbuffers", 20000), "  queue size per thread: %d" % cfg.get("queue", 20000),
         "  shared queue size: %d" % cfg.get("shared_queue", 20000), "  number of tasks: %d" % cfg.get("ntasks", 50000),
         "  random seed: %d" % cfg.get("seed", 42), "  output folder: " + rundir]
    if cfg.get("diffuse"):
        T += ["  diffuse field: true"]
    L += T
    if cfg.get("diffuse"):
        L += ["DiffuseReemissionHandler:", "  type: " + cfg["diffuse"]]
        if cfg["diffuse"] == "FixedValue":
            L += ["  reemission probability: %r" % cfg.get("reemit_p", 0.364), "  reemission frequency: 13.6 eV"]
    L += ["DensityGridWriter:", "  type: %s" % cfg.get("writer", "AsciiFile"), "  prefix: snap_", "  padding: 3"]
    if cfg.get("cross", "FixedValue") == "FixedValue":
        L += ["CrossSections:", "  type: FixedValue", "  hydrogen_0: %r m^2" % cfg.get("sigma_H", 6.3e-22)]
        for k in ["helium_0", "carbon_1", "carbon_2", "nitrogen_0", "nitrogen_1", "nitrogen_2", "oxygen_0", "oxygen_1",
                  "neon_0", "neon_1", "sulphur_1", "sulphur_2", "sulphur_3"]:
            L += ["  %s: 0. m^2" % k]
        L += ["RecombinationRates:", "  type: FixedValue", "  hydrogen_1: 4.e-19 m^3 s^-1"]  # 4e-13 cm^3 s^-1
        for k in ["helium_1", "carbon_2", "carbon_3", "nitrogen_1", "nitrogen_2", "nitrogen_3", "oxygen_1", "oxygen_2",
                  "neon_1", "neon_2", "sulphur_2", "sulphur_3", "sulphur_4"]:
            L += ["  %s: 0. m^3 s^-1" % k]
    fn = os.path.join(rundir, "run.param")
    with open(fn, "w") as f:
        f.write("\n".join(L) + "\n")
    return fn


def rhd_params(cfg, rundir, name="run.param"):
    """Pure-hydro (or RHD) parameter file for --task-based-rhd.

    cfg keys: ncell(3), nsub(3), periodic(3), box (anchor3, sides3), blocks: list of dicts
    (origin3, sides3, type, density, temperature, velocity3) -- first block must cover the box,
    gamma, cfl, total_time (s), min_dt/max_dt (optional), boundaries: per axis 'periodic'|'reflective'|
    'inflow'|'outflow', radiation (bool), nphoton, niter, backups, dump_interval (s, 0 = every step),
    restart_path, extra (list of raw lines), source position."""
    anchor, sides = cfg["box"]
    bfile = os.path.join(rundir, "blocks.yml")
    with open(bfile, "w") as f:
        f.write("number of blocks: %d\n" % len(cfg["blocks"]))
        for i, b in enumerate(cfg["blocks"]):
            f.write("block[%d]:\n  origin: %s\n  sides: %s\n  type: %s\n  number density: %r m^-3\n"
                    "  initial temperature: %r K\n  neutral fraction H: %r\n  initial velocity: %s\n" % (
                        i, _vec(b["origin"], "m"), _vec(b["sides"], "m"), b.get("type", "cube"), b["density"],
                        b["temperature"], b.get("xH", 1.0), _vec(b.get("velocity", [0., 0., 0.]), "m s^-1")))
    L = []
    L += ["SimulationBox:", "  anchor: " + _vec(anchor, "m"), "  sides: " + _vec(sides, "m"),
          "  periodicity: " + _vec(cfg["periodic"])]
    L += ["DensityGrid:", "  type: Cartesian", "  number of cells: " + _vec(cfg["ncell"])]
    L += ["DensitySubGridCreator:", "  number of subgrids: " + _vec(cfg["nsub"]),
          "  periodicity: " + _vec(cfg["periodic"])]
    L += ["DensityFunction:", "  type: BlockSyntax", "  filename: " + bfile]
    L += ["Hydro:", "  polytropic index: %r" % cfg.get("gamma", 5. / 3.)]
    bnd = cfg.get("boundaries") or [("periodic" if p else "reflective") for p in cfg["periodic"]]
    L += ["HydroBoundaryManager:"]
    for ax, b in zip("xyz", bnd):
        L += ["  boundary %s high: %s" % (ax, b), "  boundary %s low: %s" % (ax, b)]
    src = cfg.get("source", [anchor[i] + 0.5 * sides[i] for i in range(3)])
    vs = cfg.get("varsources")
    if vs:
        # time dependent source distribution: short lived sources at random positions, so that the subgrid copy
        # hierarchy is rebuilt (copies deleted and re-created) between steps
        L += ["PhotonSourceDistribution:", "  type: UniformRandom", "  number of sources: %d" % vs.get("n", 3),
              "  source lifetime: %r s" % vs["lifetime"], "  source luminosity: %r s^-1" % cfg.get("luminosity", 1e49),
              "  box anchor: " + _vec([anchor[i] + 0.1 * sides[i] for i in range(3)], "m"),
              "  box sides: " + _vec([0.8 * sides[i] for i in range(3)], "m"),
              "  update interval: %r s" % vs["update_interval"], "  starting time: 0. s",
              "  random seed: %d" % vs.get("seed", 42), "  output sources: false"]
    else:
        L += ["PhotonSourceDistribution:", "  type: SingleStar", "  position: " + _vec(src, "m"),
              "  luminosity: %r s^-1" % cfg.get("luminosity", 1e49)]
    L += ["PhotonSourceSpectrum:", "  type: Monochromatic", "  frequency: 13.6 eV"]
    T = ["TaskBasedRadiationHydrodynamicsSimulation:", "  CFL: %r" % cfg.get("cfl", 0.2),
         "  total time: %r s" % cfg["total_time"], "  do radiation: %s" % str(bool(cfg.get("radiation"))).lower(),
         "  number of photons: %d" % cfg.get("nphoton", 1000), "  number of iterations: %d" % cfg.get("niter", 2),
         "  source copy level: %d" % cfg.get("copy_level", 0),
         "  number of buffers: %d" % cfg.get("nbuffers", 2000), "  queue size per thread: %d" % cfg.get("queue", 20000),
         "  shared queue size: %d" % cfg.get("shared_queue", 20000), "  number of tasks: %d" % cfg.get("ntasks", 50000),
         "  random seed: %d" % cfg.get("seed", 42), "  output folder: " + rundir,
         "  snapshot time: %r s" % cfg.get("snapshot_time", cfg["total_time"] * 10)]
    if "min_dt" in cfg:
        T += ["  minimum timestep: %r s" % cfg["min_dt"]]
    if "max_dt" in cfg:
        T += ["  maximum timestep: %r s" % cfg["max_dt"]]
    if cfg.get("radiation_time") is not None:
        T += ["  radiation time: %r s" % cfg["radiation_time"]]
    if cfg.get("diffuse"):
        T += ["  diffuse field: true"]
    if cfg.get("turbulence"):
        T += ["  turbulent forcing: true"]
    if cfg.get("mask"):
        T += ["  use mask: true"]
    L += T
    if cfg.get("mask"):
        mk = cfg["mask"]   # RescaledIC mask: the only mask type that supports restarting
        L += ["HydroMask:", "  type: RescaledIC", "  center: " + _vec(mk["center"], "m"), "  radius: %r m" % mk["radius"],
              "  scale factor density: %r" % mk.get("fdens", 0.5), "  scale factor velocity: %r" % mk.get("fvel", 1.),
              "  scale factor pressure: %r" % mk.get("fpres", 0.5), "  delta t: %r s" % mk.get("delta_t", 0.)]
    if cfg.get("turbulence"):
        tb = cfg["turbulence"]
        L += ["TurbulenceForcing:", "  minimum wave number: 1.", "  maximum wave number: 3.", "  peak forcing wave number: 2.",
              "  concentration factor: 0.2", "  forcing power: %r m^2 s^-3" % tb.get("power", 1e6), "  time step: %r s" % tb["dt"],
              "  starting time: 0. s", "  random seed: %d" % tb.get("seed", 42)]
    L += ["RestartManager:", "  path: " + cfg.get("restart_path", rundir),
          "  output interval: %r s" % cfg.get("dump_interval", 1e30),
          "  maximum number of backups: %d" % cfg.get("backups", 1)]
    L += ["DensityGridWriter:", "  type: %s" % cfg.get("writer", "AsciiFile"), "  prefix: snap_", "  padding: 3"]
    L += ["CrossSections:", "  type: FixedValue", "  hydrogen_0: %r m^2" % cfg.get("sigma_H", 6.3e-22)]
    for k in ["helium_0", "carbon_1", "carbon_2", "nitrogen_0", "nitrogen_1", "nitrogen_2", "oxygen_0", "oxygen_1",
              "neon_0", "neon_1", "sulphur_1", "sulphur_2", "sulphur_3"]:
        L += ["  %s: 0. m^2" % k]
    L += ["RecombinationRates:", "  type: FixedValue", "  hydrogen_1: 4.e-19 m^3 s^-1"]
    for k in ["helium_1", "carbon_2", "carbon_3", "nitrogen_1", "nitrogen_2", "nitrogen_3", "oxygen_1", "oxygen_2",
              "neon_1", "neon_2", "sulphur_2", "sulphur_3", "sulphur_4"]:
        L += ["  %s: 0. m^3 s^-1" % k]
    L += list(cfg.get("extra", []))
    fn = os.path.join(rundir, name)
    with open(fn, "w") as f:
        f.write("\n".join(L) + "\n")
    return fn
