"""Offline checker for C01 over one event trace of a task-based photoionization run."""
import hashlib
from collections import Counter, defaultdict

import cmitrace as tr

E = tr.EV


def check(events, task_plot=False, level2=False):
    """Returns (violations [(key, text)], stats dict)."""
    V = []
    st = Counter()
    # traces of --task-based-rhd runs also contain the hydro worker loop: drop its events (C07 checks those)
    hydro_ids = set(e[3] for e in events if e[2] == E["HYDRO_TASK"])
    if hydro_ids:
        first_hydro = tr.T["GRADIENTSWEEP_INTERNAL"]
        last_hydro = tr.T["UPDATE_PRIMITIVES"]
        events = [e for e in events if not (
            e[2] in (E["HYDRO_TASK"], E["HYDRO_TASK_CHILD"], E["HYDRO_STEP_BEGIN"], E["HYDRO_STEP_END"], E["HYDRO_PARENTS"])
            or (e[2] in (E["TASK_START"], E["TASK_END"]) and first_hydro <= e[4] <= last_hydro)
            or (e[2] == E["TASK_ENQUEUE"] and e[3] in hydro_ids))]
        st["rhd_traces"] = 1
    if any(e[2] == E["TRACE_OVERFLOW"] for e in events):
        st["trace_overflow"] = 1
        return V, st
    # split into iterations at ITER_END (+ its trailing snapshot records from the same thread)
    iters, cur = [], []
    i, n = 0, len(events)
    while i < n:
        e = events[i]
        cur.append(e)
        if e[2] == E["ITER_END"]:
            j = i + 1
            while j < n and events[j][2] in (E["QUEUE_SIZE"], E["SUBGRID_ACTIVE_BUFFER"], E["STAGING_BUFFER"]):
                cur.append(events[j]); j += 1
            iters.append(cur); cur = []
            i = j
            continue
        i += 1
    leftover = [e for e in cur if e[2] in (E["LAUNCH"], E["TASK_START"], E["TERM_ABSORB"], E["TERM_ESCAPE"], E["TERM_NOREEMIT"])]
    if leftover:
        V.append(("trace/events-after-last-iteration", "%d packet/task events after the last ITER_END" % len(leftover)))
    st["iterations"] = len(iters)
    slot_state = {}   # task slot -> state, carried over iterations (tasks->clear() resets, handled below)
    for it_no, evs in enumerate(iters):
        end = [e for e in evs if e[2] == E["ITER_END"]][0]
        iloop, N, done, packed = end[3], end[4], end[5], end[6]
        active_buffers, tasks_taken = packed >> 32, packed & 0xffffffff
        tag = "iter %d" % it_no
        launched = Counter(); term = Counter(); term_kind = Counter()
        start_order = []
        open_by_thread = {}
        running = {}     # task slot -> (seq, type, subgrid, buffer)
        busy_sub = {}    # subgrid -> task slot (traversal tasks hold the subgrid lock)
        busy_buf = {}    # buffer -> task slot
        busy_block = {}  # continuous-source staging block -> task slot (the block lock is the only protection of its buffers)
        adds = deqs = 0
        slot_state = {}  # task slots are cleared between iterations
        for e in evs:
            seq, th, ty, a, b, c, d = e
            if ty == E["LAUNCH"]:
                launched[a] += 1; st["launch_discrete" if b == 0 else "launch_continuous"] += 1
            elif ty in (E["TERM_ABSORB"], E["TERM_ESCAPE"], E["TERM_NOREEMIT"]):
                term[a] += 1; term_kind[ty] += 1
            elif ty == E["REEMIT"]:
                st["reemissions"] += 1
            elif ty == E["PREMATURE_LAUNCH"]:
                st["premature_launches"] += 1
            elif ty == E["TASK_ENQUEUE"]:
                if c == 1:
                    adds += 1
                    s = slot_state.get(a, "FREE")
                    if s != "FREE":
                        V.append(("queue/enqueue-while-" + s.lower(), "%s: task slot %d enqueued while %s (seq %d)" % (tag, a, s, seq)))
                    slot_state[a] = "QUEUED"
                else:
                    deqs += 1
                    if d == 2:
                        st["steals"] += 1
                    s = slot_state.get(a, "FREE")
                    if s != "QUEUED":
                        V.append(("queue/dequeue-not-queued", "%s: task slot %d handed out while %s (seq %d, thread %d)" % (tag, a, s, seq, th)))
                    slot_state[a] = "HELD"
            elif ty == E["TASK_START"]:
                st["tasks_%s" % tr.TASKTYPE[b].lower()] += 1
                s = slot_state.get(a, "FREE")
                if s != "HELD":
                    V.append(("task/start-not-dequeued", "%s: task slot %d (%s) started while %s (seq %d)" % (tag, a, tr.TASKTYPE[b], s, seq)))
                slot_state[a] = "RUNNING"
                if th in open_by_thread:
                    V.append(("task/nested-start", "%s: thread %d started task %d while running %d" % (tag, th, a, open_by_thread[th])))
                open_by_thread[th] = a
                start_order.append((b, c))
                if b == tr.T["PHOTON_TRAVERSAL"]:
                    if c in busy_sub:
                        V.append(("overlap/subgrid", "%s: traversal task %d started on subgrid %d while task %d still runs on it (seq %d)" % (tag, a, c, busy_sub[c], seq)))
                    busy_sub[c] = a
                if b in (tr.T["SOURCE_CONTINUOUS_PHOTON"], tr.T["FLUSH_CONTINUOUS_PHOTON_BUFFERS"]):
                    # both task types fill/empty the staging buffers of block c (Task::get_subgrid()); those PhotonBuffers are
                    # plain arrays, so two such tasks on one block at the same time can lose or duplicate a packet
                    if c in busy_block:
                        V.append(("overlap/staging-block", "%s: %s task %d started on continuous staging block %d while task %d still works on it (seq %d)"
                                  % (tag, tr.TASKTYPE[b], a, c, busy_block[c], seq)))
                    busy_block[c] = a
                    st["staging_block_tasks"] += 1
                if b in (tr.T["PHOTON_TRAVERSAL"], tr.T["PHOTON_REEMIT"]):
                    if d in busy_buf:
                        V.append(("overlap/buffer", "%s: task %d started on buffer %d while task %d still holds it (seq %d)" % (tag, a, d, busy_buf[d], seq)))
                    busy_buf[d] = a
                running[a] = (seq, b, c, d)
            elif ty == E["TASK_END"]:
                s = slot_state.get(a, "FREE")
                if s != "RUNNING" or open_by_thread.get(th) != a:
                    V.append(("task/end-without-start", "%s: task slot %d ended on thread %d while %s" % (tag, a, th, s)))
                slot_state[a] = "FREE"
                open_by_thread.pop(th, None)
                r = running.pop(a, None)
                if r:
                    if r[1] == tr.T["PHOTON_TRAVERSAL"] and busy_sub.get(r[2]) == a:
                        del busy_sub[r[2]]
                    if busy_buf.get(r[3]) == a:
                        del busy_buf[r[3]]
                    if r[1] in (tr.T["SOURCE_CONTINUOUS_PHOTON"], tr.T["FLUSH_CONTINUOUS_PHOTON_BUFFERS"]) and busy_block.get(r[2]) == a:
                        del busy_block[r[2]]
        st["packets_launched"] += sum(launched.values())
        st["packets_terminated"] += sum(term.values())
        st["term_absorb"] += term_kind[E["TERM_ABSORB"]]
        st["term_escape"] += term_kind[E["TERM_ESCAPE"]]
        st["term_noreemit"] += term_kind[E["TERM_NOREEMIT"]]
        st["enqueues"] += adds
        # --- exactly once
        dup = [k for k, v in launched.items() if v > 1]
        if dup:
            V.append(("launch/duplicate-id", "%s: %d packet ids launched more than once, e.g. %x" % (tag, len(dup), dup[0])))
        if sum(launched.values()) != N:
            V.append(("launch/count", "%s: %d packets launched, %d requested" % (tag, sum(launched.values()), N)))
        multi = [k for k, v in term.items() if v > 1]
        if multi:
            V.append(("term/twice", "%s: %d packets terminated more than once, e.g. %x x%d" % (tag, len(multi), multi[0], term[multi[0]])))
        never = [k for k in launched if k not in term]
        if never:
            V.append(("term/never", "%s: %d launched packets never terminated, e.g. %x" % (tag, len(never), never[0])))
        ghost = [k for k in term if k not in launched]
        if ghost:
            V.append(("term/unknown-id", "%s: %d terminated packets were never launched in this iteration, e.g. %x" % (tag, len(ghost), ghost[0])))
        # --- end-of-iteration state
        if done != N:
            V.append(("end/count", "%s: iteration ended with %d of %d packets accounted for" % (tag, done, N)))
        if active_buffers != 0:
            V.append(("end/buffers-held", "%s: %d photon buffers still held at iteration end" % (tag, active_buffers)))
        if not task_plot and tasks_taken != 0 and tasks_taken < 0xffffff00:
            V.append(("end/tasks-held", "%s: %d task slots still taken at iteration end" % (tag, tasks_taken)))
        for e in evs:
            if e[2] == E["QUEUE_SIZE"] and e[4] != 0:
                V.append(("end/queue-nonempty", "%s: queue %d holds %d entries at iteration end" % (tag, e[3] if e[3] < 1 << 32 else -1, e[4])))
            elif e[2] == E["SUBGRID_ACTIVE_BUFFER"]:
                V.append(("end/active-buffer-reference", "%s: subgrid %d still references buffer %d for direction %d" % (tag, e[3], e[5], e[4])))
            elif e[2] == E["STAGING_BUFFER"]:
                V.append(("end/staging-nonempty", "%s: continuous staging buffer (%d,%d) holds %d packets" % (tag, e[3], e[4], e[5])))
        if adds != deqs:
            V.append(("queue/lost-or-duplicated", "%s: %d tasks enqueued, %d handed out" % (tag, adds, deqs)))
        for slot, s in slot_state.items():
            if s != "FREE":
                V.append(("task/unfinished", "%s: task slot %d left in state %s" % (tag, slot, s)))
        if open_by_thread:
            V.append(("task/unfinished", "%s: threads %s ended the iteration inside a task" % (tag, sorted(open_by_thread))))
        h = hashlib.sha1(repr(start_order).encode()).hexdigest()[:12]
        st.setdefault("schedule_hashes", set()) if False else None
        st["_sched_" + h] += 1
        if level2:
            _check_handover(evs, tag, V, st)
    return V, st


def _check_handover(evs, tag, V, st):
    """Every packet that leaves subgrid s through direction d (towards neighbour n) must next enter n through opposite(d)."""
    last_exit = {}
    for e in evs:
        seq, th, ty, a, b, c, d = e
        if ty == E["HANDOVER"]:
            sub, dr = b >> 8, b & 0xff
            if c == 0:    # exit towards d == neighbour index
                last_exit[a] = (sub, dr, d)
                st["handover_exits"] += 1
            else:         # enter
                x = last_exit.pop(a, None)
                if x is None:
                    if dr != 0:
                        V.append(("handover/enter-without-exit", "%s: packet %x enters subgrid %d through direction %d without having left a neighbour" % (tag, a, sub, dr)))
                    continue
                st["handover_enters"] += 1
                if x[1] == 0:
                    ok = (dr == 0 and sub == x[0])
                else:
                    ok = (sub == x[2] and dr == tr.opposite(x[1]))
                if not ok:
                    V.append(("handover/mismatch", "%s: packet %x left subgrid %d through direction %d towards %d but entered subgrid %d through direction %d" % (tag, a, x[0], x[1], x[2], sub, dr)))
