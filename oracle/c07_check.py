"""Offline checker for C07 over the event trace of the hydro worker loop of one --task-based-rhd run."""
import hashlib
from collections import Counter, defaultdict

import cmitrace as tr

E = tr.EV
T = tr.T
FACE = {0: (21, 22), 1: (23, 24), 2: (25, 26)}   # axis -> (positive face code, negative face code)
GRAD_PAIR, GRAD_BND = T["GRADIENTSWEEP_EXTERNAL_NEIGHBOUR"], T["GRADIENTSWEEP_EXTERNAL_BOUNDARY"]
FLUX_PAIR, FLUX_BND = T["FLUXSWEEP_EXTERNAL_NEIGHBOUR"], T["FLUXSWEEP_EXTERNAL_BOUNDARY"]
NONE32 = 0xffffffff


def parse_table(events):
    tasks, children = {}, defaultdict(list)
    for e in events:
        if e[2] == E["HYDRO_TASK"]:
            seq, th, ty, a, b, c, d = e
            tasks[a] = dict(type=b & 0xff, slot=(b >> 8) & 0xff, direction=(b >> 16) & 0xff, subgrid=c & NONE32,
                            partner=(c >> 32) & NONE32, dep0=d & NONE32, dep1=(d >> 32) & NONE32)
        elif e[2] == E["HYDRO_TASK_CHILD"]:
            children[e[3]].append(e[4])
    return tasks, children


def neighbour(s, axis, sign, nsub, periodic):
    nx, ny, nz = nsub
    idx = [s // (ny * nz), (s // nz) % ny, s % nz]
    idx[axis] += sign
    if idx[axis] < 0 or idx[axis] >= nsub[axis]:
        if not periodic[axis]:
            return None
        idx[axis] %= nsub[axis]
    return (idx[0] * ny + idx[1]) * nz + idx[2]


def audit_table(tasks, children, nsub, periodic):
    """Structural audit of the constructed task graph against the grid geometry."""
    V = []
    nsg = nsub[0] * nsub[1] * nsub[2]
    by = defaultdict(dict)   # subgrid -> slot -> task index
    for i, t in tasks.items():
        by[t["subgrid"]][t["slot"]] = i
    if sorted(by) != list(range(nsg)):
        V.append(("table/subgrids", "task table lists subgrids %s, expected 0..%d" % (sorted(by)[:10], nsg - 1)))
        return V
    for kind, pair_t, bnd_t, first_slot in (("gradient", GRAD_PAIR, GRAD_BND, 1), ("flux", FLUX_PAIR, FLUX_BND, 10)):
        cover = defaultdict(list)   # (subgrid, face code) -> covering tasks
        for i, t in tasks.items():
            if t["type"] == pair_t:
                ax = [a for a in FACE if FACE[a][0] == t["direction"]]
                if not ax:
                    V.append(("table/pair-direction", "%s pair task %d has direction %d (not a positive face)" % (kind, i, t["direction"])))
                    continue
                ax = ax[0]
                ngb = neighbour(t["subgrid"], ax, +1, nsub, periodic)
                if ngb != t["partner"]:
                    V.append(("table/wrong-partner", "%s pair task %d of subgrid %d, axis %d: partner %d, geometric neighbour %s" % (
                        kind, i, t["subgrid"], ax, t["partner"], ngb)))
                cover[(t["subgrid"], FACE[ax][0])].append(i)
                cover[(t["partner"], FACE[ax][1])].append(i)
                declared = set(x for x in (t["dep0"], t["dep1"]) if x != NONE32)
                needed = {t["subgrid"], t["partner"]}
                if not needed <= declared:
                    V.append(("table/lock-set", "%s pair task %d touches subgrids %s but declares locks %s" % (kind, i, sorted(needed), sorted(declared))))
            elif t["type"] == bnd_t:
                cover[(t["subgrid"], t["direction"])].append(i)
                ax = [a for a in FACE if t["direction"] in FACE[a]][0]
                sign = +1 if FACE[ax][0] == t["direction"] else -1
                if neighbour(t["subgrid"], ax, sign, nsub, periodic) is not None:
                    V.append(("table/boundary-on-inner-face", "%s boundary task %d on face %d of subgrid %d which has a neighbour" % (kind, i, t["direction"], t["subgrid"])))
                if t["subgrid"] not in (t["dep0"], t["dep1"]):
                    V.append(("table/lock-set", "%s boundary task %d of subgrid %d declares locks (%d,%d)" % (kind, i, t["subgrid"], t["dep0"], t["dep1"])))
        for s in range(nsg):
            for ax in range(3):
                for f in FACE[ax]:
                    c = cover.get((s, f), [])
                    if len(c) != 1:
                        V.append(("table/face-coverage", "%s: face %d of subgrid %d is covered by %d tasks %s (expected exactly one)" % (kind, f, s, len(c), c)))
        # edges
        for s in range(nsg):
            sl = by[s]
            if kind == "gradient":
                target = sl.get(7)
                expect = Counter([sl.get(0)] + [cover[(s, f)][0] for ax in range(3) for f in FACE[ax] if cover.get((s, f))])
                got = Counter(p for p, ch in children.items() for c in ch if c == target)
                if expect != got:
                    V.append(("table/edges-limiter", "subgrid %d: slope limiter parents %s, expected %s" % (s, dict(got), dict(expect))))
            else:
                target = sl.get(16)
                expect = Counter([sl.get(9)] + [cover[(s, f)][0] for ax in range(3) for f in FACE[ax] if cover.get((s, f))])
                got = Counter(p for p, ch in children.items() for c in ch if c == target)
                if expect != got:
                    V.append(("table/edges-update", "subgrid %d: conserved update parents %s, expected %s" % (s, dict(got), dict(expect))))
                pp = sl.get(8)
                if Counter(children.get(pp, [])) != expect:
                    V.append(("table/edges-predict", "subgrid %d: prediction task children %s, expected %s" % (s, dict(Counter(children.get(pp, []))), dict(expect))))
    for s in range(nsg):
        sl = by[s]
        if children.get(sl.get(7), []) != [sl.get(8)]:
            V.append(("table/edges-chain", "subgrid %d: slope limiter children %s, expected [%s]" % (s, children.get(sl.get(7)), sl.get(8))))
        if children.get(sl.get(16), []) != [sl.get(17)]:
            V.append(("table/edges-chain", "subgrid %d: conserved update children %s, expected [%s]" % (s, children.get(sl.get(16)), sl.get(17))))
        for slot, ty in ((0, T["GRADIENTSWEEP_INTERNAL"]), (7, T["SLOPE_LIMITER"]), (8, T["PREDICT_PRIMITIVES"]), (9, T["FLUXSWEEP_INTERNAL"]),
                         (16, T["UPDATE_CONSERVED"]), (17, T["UPDATE_PRIMITIVES"])):
            i = sl.get(slot)
            if i is None or tasks[i]["type"] != ty:
                V.append(("table/slot-type", "subgrid %d slot %d: task %s has wrong type" % (s, slot, i)))
            elif s not in (tasks[i]["dep0"], tasks[i]["dep1"]):
                V.append(("table/lock-set", "task %d (slot %d) of subgrid %d declares locks (%d,%d)" % (i, slot, s, tasks[i]["dep0"], tasks[i]["dep1"])))
    return V


def check(events, nsub=None, periodic=None):
    V, st = [], Counter()
    tasks, children = parse_table(events)
    st["table_tasks"] = len(tasks)
    if not tasks:
        V.append(("trace/no-table", "no hydro task table in the trace"))
        return V, st
    if nsub is not None:
        V += audit_table(tasks, children, nsub, periodic)
    indeg = Counter(c for p, ch in children.items() for c in ch)
    resources = {i: {t["subgrid"]} | ({t["partner"]} if t["partner"] != NONE32 else set()) for i, t in tasks.items()}
    if any(e[2] == E["TRACE_OVERFLOW"] for e in events):
        st["trace_overflow"] = 1
        return V, st
    # split into steps
    steps, cur = [], []
    for e in events:
        if e[2] in (E["HYDRO_TASK"], E["HYDRO_TASK_CHILD"]):
            continue
        cur.append(e)
        if e[2] == E["HYDRO_STEP_END"]:
            steps.append(cur); cur = []
    if any(e[2] == E["DEADLOCK"] for e in cur):
        d = [e for e in cur if e[2] == E["DEADLOCK"]][0]
        same = [i for i, t in tasks.items() if t["dep0"] == t["dep1"] and t["dep0"] != NONE32]
        V.append(("deadlock/self-pair-task" if same else "deadlock/other",
                  "hydro step does not terminate: %d tasks remaining, no task running, none obtainable in %d polls%s" % (
                      d[3], d[4], (" (tasks %s list the same lock twice)" % same[:4]) if same else "")))
        st["deadlocks"] += 1
    elif any(e[2] == E["HYDRO_STEP_BEGIN"] for e in cur):
        V.append(("step/unfinished", "trace ends inside a hydro step"))
    st["steps"] = len(steps)
    for sno, evs in enumerate(steps):
        tag = "step %d" % sno
        start, end, sthread = {}, {}, {}
        parents = {}
        q = Counter()
        order = []
        for e in evs:
            seq, th, ty, a, b, c, d = e
            if ty == E["HYDRO_PARENTS"]:
                parents[a] = b
            elif ty == E["TASK_START"] and a in tasks and b >= T["GRADIENTSWEEP_INTERNAL"] and b <= T["UPDATE_PRIMITIVES"]:
                if a in start:
                    V.append(("task/started-twice", "%s: task %d (%s, subgrid %d) started twice" % (tag, a, tr.TASKTYPE[b], c)))
                start[a] = seq; sthread[a] = th
                order.append(a)
                if b != tasks[a]["type"]:
                    V.append(("task/type-changed", "%s: task %d runs as %s but the table says %s" % (tag, a, tr.TASKTYPE[b], tr.TASKTYPE[tasks[a]["type"]])))
            elif ty == E["TASK_END"] and a in tasks and b >= T["GRADIENTSWEEP_INTERNAL"] and b <= T["UPDATE_PRIMITIVES"]:
                if a in end:
                    V.append(("task/ended-twice", "%s: task %d ended twice" % (tag, a)))
                end[a] = seq
                if sthread.get(a) != th:
                    V.append(("task/end-other-thread", "%s: task %d ended on another thread than it started" % (tag, a)))
            elif ty == E["TASK_ENQUEUE"] and a in tasks:
                q[(a, c)] += 1
                if d == 2:
                    st["steals"] += 1
        st["task_executions"] += len(start)
        for i in tasks:
            if i not in start or i not in end:
                V.append(("task/never-run", "%s: task %d (%s of subgrid %d) was not executed" % (tag, i, tr.TASKTYPE[tasks[i]["type"]], tasks[i]["subgrid"])))
            if q[(i, 1)] != 1 or q[(i, 0)] != 1:
                V.append(("queue/not-exactly-once", "%s: task %d enqueued %d times, handed out %d times" % (tag, i, q[(i, 1)], q[(i, 0)])))
            if parents.get(i) != indeg.get(i, 0):
                V.append(("reset/parent-counter", "%s: task %d starts the step with %s unfinished parents, in-degree is %d" % (tag, i, parents.get(i), indeg.get(i, 0))))
        # ordering
        nedges = 0
        for p, ch in children.items():
            for c in ch:
                nedges += 1
                if p in end and c in start and start[c] < end[p]:
                    V.append(("order/child-before-parent", "%s: task %d (%s) started (seq %d) before its parent %d (%s) finished (seq %d)" % (
                        tag, c, tr.TASKTYPE[tasks[c]["type"]], start[c], p, tr.TASKTYPE[tasks[p]["type"]], end[p])))
        st["edges_checked"] += nedges
        # conflicts: per subgrid, intervals of all tasks touching it must be disjoint
        per = defaultdict(list)
        for i in start:
            if i in end:
                for r in resources[i]:
                    per[r].append((start[i], end[i], i))
        for r, iv in per.items():
            iv.sort()
            for k in range(1, len(iv)):
                st["interval_pairs_checked"] += 1
                if iv[k][0] < iv[k - 1][1]:
                    V.append(("overlap/subgrid", "%s: tasks %d (%s) and %d (%s) ran at the same time on subgrid %d (seq %d..%d vs %d..%d)" % (
                        tag, iv[k - 1][2], tr.TASKTYPE[tasks[iv[k - 1][2]]["type"]], iv[k][2], tr.TASKTYPE[tasks[iv[k][2]]["type"]], r,
                        iv[k - 1][0], iv[k - 1][1], iv[k][0], iv[k][1])))
        # how concurrent was this step?
        pts = sorted([(s, 1) for s in start.values()] + [(e, -1) for e in end.values()])
        lvl = mx = 0
        for _, dlt in pts:
            lvl += dlt; mx = max(mx, lvl)
        st["max_concurrency"] = max(st["max_concurrency"], mx)
        st["_sched_" + hashlib.sha1(repr(order).encode()).hexdigest()[:12]] += 1
    return V, st
