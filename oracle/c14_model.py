"""C14 oracle: sequential model of the restart-dump rotation + offline dump decoder.

Written from the property statement, not from RestartManager.hpp (only the file
names restart.dump / restart.<i>.back are taken from there): after every dump the
newest state is in the main file and the previous complete dumps, up to B, are kept
newest-first in the backups 0, 1, ...
"""
import re
import struct

MAIN = "restart.dump"


def backup_name(i):
    return "restart.%d.back" % i


def expected_after(B, n, first=1, before=()):
    """Directory content {file name: dump id} after dumps first..first+n-1 with B
    backups; `before` = ids already in the directory, newest first (resumed run)."""
    main, backups = (before[0], list(before[1:])) if before else (None, [])
    for d in range(first, first + n):          # one dump: the old main becomes backup 0,
        if main is not None:                   # everything else moves one place down,
            backups = ([main] + backups)[:B]   # only the B newest are kept
        main = d
    content = {} if main is None else {MAIN: main}
    content.update({backup_name(i): d for i, d in enumerate(backups)})
    if not before:                             # closed form of the property statement
        assert content == dict(([(MAIN, n)] if n else []) +
                               [(backup_name(i), n - 1 - i) for i in range(min(B, max(n - 1, 0)))])
    return content


# ---- payload written by harness/c14_driver.cpp (format is documented there) ----
M64 = (1 << 64) - 1
MAGIC, TRAILER = b"C14DUMP1", b"C14TRAIL"


def _mix(z):
    z = (z + 0x9E3779B97F4A7C15) & M64
    z = ((z ^ (z >> 30)) * 0xBF58476D1CE4E5B9) & M64
    z = ((z ^ (z >> 27)) * 0x94D049BB133111EB) & M64
    return z ^ (z >> 31)


def _fnv(data):
    h = 0xcbf29ce484222325
    for b in data:
        h = ((h ^ b) * 0x100000001b3) & M64
    return h


def decode(data):
    """-> (status, id): 'complete' | 'empty' | 'truncated' | 'corrupt' ; id or None."""
    if len(data) == 0:
        return "empty", None
    if len(data) < 32:
        return ("truncated" if MAGIC.startswith(data[:8]) or data[:8] == MAGIC else "corrupt"), None
    if data[:8] != MAGIC:
        return "corrupt", None
    n, nwords, nstr = struct.unpack_from("<QQQ", data, 8)
    total = 32 + 8 * nwords + 8 + nstr + 16
    if len(data) < total:
        return "truncated", n
    if len(data) > total:
        return "corrupt", n
    words = struct.unpack_from("<%dQ" % nwords, data, 32)
    off = 32 + 8 * nwords
    (slen,) = struct.unpack_from("<Q", data, off)
    body = data[off + 8: off + 8 + nstr]
    (csum,) = struct.unpack_from("<Q", data, off + 8 + nstr)
    ok = (slen == nstr and data[-8:] == TRAILER and csum == _fnv(data[:off + 8 + nstr])
          and all(w == _mix((n * 1000003 + j) & M64) for j, w in enumerate(words))
          and all(b == (_mix((n * 7919 + j + 0x5bd1e995) & M64) & 0xff) for j, b in enumerate(body)))
    return ("complete" if ok else "corrupt"), n


def classify(name):
    """-> ('main', None) | ('backup', i) | ('other', None)"""
    if name == MAIN:
        return "main", None
    m = re.fullmatch(r"restart\.(\d+)\.back", name)
    return ("backup", int(m.group(1))) if m else ("other", None)
