#!/usr/bin/env python3
"""C17 offline oracle: exact sign of the orientation / in-sphere determinants.

Independent of /repo/src/ExactGeometricTests.hpp: the repository subtracts the last point
and expands a 3x3 / a 4x4 determinant of differences with fixed-width (256/278 bit)
integers.  Here the *homogeneous* determinants

    D4(a,b,c,d)   = det | ax ay az 1 |        D5(a,..,e) = det | ax ay az ax^2+ay^2+az^2 1 |
                        | bx by bz 1 |                         | ...                        |
                        | cx cy cz 1 |                         | ex ey ez ex^2+ey^2+ez^2 1 |
                        | dx dy dz 1 |

are evaluated by plain recursive cofactor expansion along the first row with Python's
unbounded integers, on the 52-bit mantissa integers m = (x-1)*2^52 of the logged
coordinates (x in [1,2)).  x -> m is a translation followed by a uniform scaling with a
positive factor; D4 is invariant under translations and scales with the 3rd power, D5 is
invariant under translations and scales with the 5th power, so sign D(m) == sign D(x).

Sign convention of the repository (established, not assumed: see `establish_convention`):
  orient3d(a,b,c,d)   == ORIENT_SIGN   * sign D4(a,b,c,d)   with ORIENT_SIGN   = +1
  insphere(a,b,c,d,e) == INSPHERE_SIGN * sign D5(a,b,c,d,e) with INSPHERE_SIGN = +1
Geometric meaning, from the documentation and the callers:
  * orient3d is +1 when d lies BELOW the plane through a,b,c, "above" being the side from
    which a,b,c appear counterclockwise, i.e. when (d-a).((b-a)x(c-a)) < 0; the documented
    example (0,0,0),(0,0,1),(0,1,0),(1,0,0) gives +1.
  * insphere is NEGATIVE when e is strictly inside the circumsphere of a tetrahedron with
    orient3d(a,b,c,d) < 0 (NewVoronoiCellConstructor treats "< 0" as a violated empty
    circumsphere: "Invalid tetrahedron!", "Wrong tetrahedron!"); in general
    insphere == orient3d(a,b,c,d) * (+1 inside, -1 outside).
`establish_convention` verifies both statements with rational arithmetic (triple product,
circumcentre from the perpendicular bisector equations) on reference and random tuples,
without using determinants of the lifted points.

Usable stand-alone for replays:
    <harness> --seed S --tuples N --only CASE | python3 c17_exact.py
"""
import hashlib
import itertools
import struct
import sys
from fractions import Fraction

ORIENT_SIGN = +1
INSPHERE_SIGN = +1
MANT = (1 << 52) - 1
FILTER_REL = 10 ** 10  # the repository's filter threshold is 1e-10 * (sum of |terms|)


def sgn(v):
    return (v > 0) - (v < 0)


def mantissa(tok):
    """hex float in [1,2) -> integer mantissa (bit pattern, not arithmetic)."""
    x = float.fromhex(tok)
    b = struct.unpack("<Q", struct.pack("<d", x))[0]
    if (b >> 52) != 0x3FF:
        raise ValueError("coordinate %s outside [1,2)" % tok)
    return b & MANT


def det(m):
    """Determinant by cofactor expansion along the first row (exact on ints / Fractions)."""
    n = len(m)
    if n == 1:
        return m[0][0]
    if n == 2:
        return m[0][0] * m[1][1] - m[0][1] * m[1][0]
    total = 0
    rest = m[1:]
    for j in range(n):
        c = m[0][j]
        if c == 0:
            continue
        minor = [row[:j] + row[j + 1:] for row in rest]
        t = c * det(minor)
        total = total - t if j & 1 else total + t
    return total


def abs_permanent(m):
    """Sum of the absolute values of all n! terms of the Leibniz formula."""
    n = len(m)
    if n == 1:
        return abs(m[0][0])
    total = 0
    rest = m[1:]
    for j in range(n):
        c = m[0][j]
        if c == 0:
            continue
        total += abs(c) * abs_permanent([row[:j] + row[j + 1:] for row in rest])
    return total


def d4(p):
    return det([[q[0], q[1], q[2], 1] for q in p])


def d5(p):
    return det([[q[0], q[1], q[2], q[0] * q[0] + q[1] * q[1] + q[2] * q[2], 1] for q in p])


def true_sign(pts):
    if len(pts) == 4:
        return ORIENT_SIGN * sgn(d4(pts))
    return INSPHERE_SIGN * sgn(d5(pts))


def in_filter_band(pts, dvalue):
    """Regime classification only (never a verdict): is |det| within 1e-10 * (sum of the
    absolute values of the terms of the determinant of differences to the last point)?
    Any floating point filter with that threshold must hand such a tuple to exact
    arithmetic."""
    last = pts[-1]
    rows = []
    for q in pts[:-1]:
        r = [q[0] - last[0], q[1] - last[1], q[2] - last[2]]
        if len(pts) == 5:
            r.append(r[0] * r[0] + r[1] * r[1] + r[2] * r[2])
        rows.append(r)
    return abs(dvalue) * FILTER_REL <= abs_permanent(rows)


# ------------------------------------------------------------------ permutation tables
def parity(perm):
    s, p = 1, list(perm)
    for i in range(len(p)):
        while p[i] != i:
            j = p[i]
            p[i], p[j] = p[j], p[i]
            s = -s
    return s


_CH = {1: "+", 0: "0", -1: "-"}
PERMS = {n: list(itertools.permutations(range(n))) for n in (4, 5)}
PARITY = {n: [parity(p) for p in PERMS[n]] for n in (4, 5)}
EXPECT = {n: {s: "".join(_CH[s * par] for par in PARITY[n]) for s in (-1, 0, 1)} for n in (4, 5)}


# ------------------------------------------------------------------ convention (geometric)
def geometric_orient(p):
    a, b, c, d = p
    u = [b[i] - a[i] for i in range(3)]
    v = [c[i] - a[i] for i in range(3)]
    w = [d[i] - a[i] for i in range(3)]
    n = [u[1] * v[2] - u[2] * v[1], u[2] * v[0] - u[0] * v[2], u[0] * v[1] - u[1] * v[0]]
    below = w[0] * n[0] + w[1] * n[1] + w[2] * n[2]
    return -sgn(below)  # +1 when d is below the plane of the counterclockwise a,b,c


def geometric_insphere(p):
    """orient(a,b,c,d) * (+1 inside / 0 on / -1 outside) with a rational circumcentre."""
    a, b, c, d, e = p
    o = geometric_orient([a, b, c, d])
    if o == 0:
        return None
    # |x-a|^2 = |x-b|^2 etc.: 2 (q-a).x = |q|^2-|a|^2 for q in b,c,d  (Cramer's rule)
    rows = [[2 * (q[i] - a[i]) for i in range(3)] for q in (b, c, d)]
    rhs = [sum(q[i] * q[i] - a[i] * a[i] for i in range(3)) for q in (b, c, d)]
    den = Fraction(det(rows))
    cen = []
    for k in range(3):
        mk = [r[:k] + [rhs[i]] + r[k + 1:] for i, r in enumerate(rows)]
        cen.append(Fraction(det(mk)) / den)
    r2 = sum((a[i] - cen[i]) ** 2 for i in range(3))
    for q in (b, c, d):
        assert sum((q[i] - cen[i]) ** 2 for i in range(3)) == r2
    de = sum((e[i] - cen[i]) ** 2 for i in range(3))
    return o * sgn(r2 - de)


def establish_convention(rng_next, nrandom=300):
    """Returns a list of discrepancies between the determinant formulas (with the sign
    constants above) and the geometric definitions; [] means the convention holds."""
    bad = []
    H, Q, T = 1 << 51, 1 << 49, MANT
    a, b, c, d = (0, 0, 0), (0, 0, H), (0, H, 0), (H, 0, 0)
    refs = [([a, b, c, d], +1), ([a, b, d, c], -1),
            ([a, b, d, c, (Q, Q, Q)], -1), ([a, b, d, c, (T, T, T)], +1),
            ([a, b, c, d, (Q, Q, Q)], +1)]
    for pts, want in refs:
        geo = geometric_orient(pts) if len(pts) == 4 else geometric_insphere(pts)
        if not (true_sign(pts) == geo == want):
            bad.append("reference %r: determinant %d geometric %s documented %d" % (pts, true_sign(pts), geo, want))
    for _ in range(nrandom):
        n = 4 + (rng_next() & 1)
        pts = [tuple(rng_next() >> 12 for _ in range(3)) for _ in range(n)]
        geo = geometric_orient(pts) if n == 4 else geometric_insphere(pts)
        if geo is not None and geo != true_sign(pts):
            bad.append("random %r: determinant %d geometric %d" % (pts, true_sign(pts), geo))
    return bad


# ------------------------------------------------------------------ checking one log line
class Tally:
    def __init__(self):
        self.c = {}
        self.mx = {}        # maxima (bit length of the largest determinant seen)
        self.viol = []      # (key, case, text)
        self.samples = {}   # label -> text
        self.hashes = set()
        self.hash_cap = 40000

    def inc(self, k, n=1):
        self.c[k] = self.c.get(k, 0) + n


def check_line(line, tally):
    """Check one 'T ...' line of the harness against the exact determinant."""
    f = dict(tok.split("=", 1) for tok in line.split()[1:])
    case, kind, cls, sub = f["case"], f["kind"], f["cls"], f["sub"]
    n = 4 if kind == "O" else 5
    name = "orient3d" if n == 4 else "insphere"
    toks = f["pts"].split(",")
    if len(toks) != 3 * n:
        raise ValueError("malformed line (case %s)" % case)
    m = [mantissa(t) for t in toks]
    pts = [tuple(m[3 * i:3 * i + 3]) for i in range(n)]
    dval = d4(pts) if n == 4 else d5(pts)
    s = (ORIENT_SIGN if n == 4 else INSPHERE_SIGN) * sgn(dval)
    ad, ex = f["ad"], f["ex"]
    nperm = len(PERMS[n])
    if len(ad) != nperm or len(ex) != nperm:
        raise ValueError("malformed result strings (case %s)" % case)
    regime = {"r": "random", "d": "degenerate", "n": "near-degenerate", "ref": "reference"}[cls]
    band = s != 0 and in_filter_band(pts, dval)

    tally.inc("tuples")
    tally.mx["%s_max_det_bits" % name] = max(tally.mx.get("%s_max_det_bits" % name, 0), abs(dval).bit_length())
    tally.inc("%s_%s" % (name, regime))
    tally.inc("evaluations", 2 * nperm)
    tally.inc("permutation_results_checked", 2 * (nperm - 1))
    if s == 0:
        tally.inc("%s_true_zero" % name)
        tally.inc("true_zero_%s" % regime)
    else:
        tally.inc("%s_true_nonzero" % name)
        if band:
            tally.inc("%s_filter_band_nonzero" % name)  # float filter cannot decide, exact part must
        else:
            tally.inc("%s_outside_filter_band" % name)
        if cls == "n":
            tally.inc("%s_near_degenerate_nonzero" % name)
    if ad[0] == "0":
        tally.inc("adaptive_returned_zero")
    if ex[0] == "0":
        tally.inc("exact_returned_zero")
    if s == 0 or band or cls == "n":  # non-trivial: a naive floating point evaluation cannot be trusted here
        tally.inc("nontrivial_tuples")
        if len(tally.hashes) < tally.hash_cap:
            tally.hashes.add(hashlib.blake2b((kind + f["pts"]).encode(), digest_size=8).digest())

    expect = EXPECT[n][s]
    if ad != expect or ex != expect:
        desc = "%s case %s %s/%s: true sign %+d (det=%d) pts=%s" % (name, case, regime, sub, s, dval, f["pts"])
        for label, got in (("exact", ex), ("adaptive", ad)):
            if got == expect:
                continue
            g0 = {"+": 1, "0": 0, "-": -1}.get(got[0])
            if g0 != s:
                if label == "exact":
                    clause = "sign"
                elif g0 in (1, -1) and s != 0:
                    clause = "wrong-nonzero-sign"      # a decided (nonzero) answer with the wrong sign
                elif g0 == 0:
                    clause = "zero-on-nondegenerate"
                elif s == 0:
                    clause = "nonzero-on-degenerate"
                else:
                    clause = "not-a-sign"
                tally.viol.append(("%s_%s/%s/%s" % (name, label, clause, regime), case,
                                   "%s: %s_%s returned %s" % (desc, name, label, got[0])))
            # permutation clause relative to the function's own answer for the identity
            if g0 in (1, 0, -1):
                own = EXPECT[n][g0]
                if got != own:
                    k = next(i for i in range(nperm) if got[i] != own[i])
                    tally.viol.append(("%s_%s/permutation/%s" % (name, label, regime), case,
                                       "%s: %s_%s identity order gives %s but permutation %s (parity %+d) gives %s" % (
                                           desc, name, label, got[0], PERMS[n][k], PARITY[n][k], got[k])))
    # written-out samples, one per (predicate, interesting regime)
    lab = "%s/%s%s" % (name, regime, "/filter-band" if band else ("/zero" if s == 0 else ""))
    if lab not in tally.samples:
        tally.samples[lab] = "%s sub=%s case=%s pts=%s  exact determinant (mantissa units)=%d -> sign %+d; adaptive=%s exact=%s; %d permutations consistent" % (
            lab, sub, case, f["pts"], dval, s, ad[0], ex[0], nperm)
    return s


def main():
    tally = Tally()
    for line in sys.stdin:
        if line.startswith("T "):
            check_line(line, tally)
    for k in sorted(tally.c):
        print("STAT %s=%d" % (k, tally.c[k]))
    for k in sorted(tally.mx):
        print("STAT %s=%d" % (k, tally.mx[k]))
    for key, case, text in tally.viol:
        print("VIOL key=%s case=%s %s" % (key, case, text))
    print("DONE violations=%d" % len(tally.viol))
    return 1 if tally.viol else 0


if __name__ == "__main__":
    sys.exit(main())
