"""Independent evaluation of the Verner photoionization fits for C18.

Re-implementation, from the published description, of D. A. Verner's routine
`phfit2` (Verner, Ferland, Korista & Yakovlev 1996, ApJ 465, 487; inner shells:
Verner & Yakovlev 1995, A&AS 109, 125).  Works in eV and megabarn like the
papers, reads the shipped tables `data/verner_{A,B,C}.dat` directly and shares
no code or intermediate quantities with src/VernerCrossSections.cpp (which works
in Hz with pre-inverted, pre-multiplied coefficients).

Fit of a single shell (VY95, eq. 1):
    sigma(E) = sigma_0 F(y),  y = E/E_0,
    F(y) = [(y-1)^2 + y_w^2] y^(-Q) (1 + sqrt(y/y_a))^(-P),  Q = 5.5 + l - P/2
Fit of the whole outer shell group below the first inner-shell edge (VFKY96, eq. 1):
    x = E/E_0 - y_0,  y = sqrt(x^2 + y_1^2),
    F = [(x-1)^2 + y_w^2] y^(P/2 - 5.5) (1 + sqrt(y/y_a))^(-P)
Shell numbering 1..7 = 1s 2s 2p 3s 3p 3d 4s.
"""
import math
import os
from fractions import Fraction

SHELL_OF_NL = {(1, 0): 1, (2, 0): 2, (2, 1): 3, (3, 0): 4, (3, 1): 5, (3, 2): 6, (4, 0): 7}
L_OF_SHELL = {1: 0, 2: 0, 3: 1, 4: 0, 5: 1, 6: 2, 7: 0}
N_OF_SHELL = {1: 1, 2: 2, 3: 2, 4: 3, 5: 3, 6: 3, 7: 4}

MB_TO_M2 = 1.0e-22  # 1 Mb = 1e-18 cm^2 = 1e-22 m^2

# The ions the code tracks: name -> (Z, number of electrons of the ion that absorbs).
IONS = {
    "H": (1, 1), "He": (2, 2), "C+": (6, 5), "C++": (6, 4), "N": (7, 7), "N+": (7, 6), "N++": (7, 5),
    "O": (8, 8), "O+": (8, 7), "Ne": (10, 10), "Ne+": (10, 9), "S+": (16, 15), "S++": (16, 14), "S+++": (16, 13),
}
# First ionization potentials of those ions (eV), NIST Atomic Spectra Database; used only
# for a coarse (0.2 %) cross-check that the right (Z, N) row is used for every ion.
NIST_IP_EV = {
    "H": 13.598, "He": 24.587, "C+": 24.383, "C++": 47.888, "N": 14.534, "N+": 29.601, "N++": 47.449,
    "O": 13.618, "O+": 35.121, "Ne": 21.565, "Ne+": 40.963, "S+": 23.338, "S++": 34.79, "S+++": 47.222,
}


class Tables:
    def __init__(self, datadir):
        self.ph1 = {}   # (Z, N, shell) -> (E_th, E_0, sigma_0, y_a, P, y_w) as floats
        self.ph1_txt = {}  # same, threshold as exact Fraction of the decimal text
        self.ph2 = {}   # (Z, N) -> (E_th, E_max, E_0, sigma_0, y_a, P, y_w, y_0, y_1)
        self.ninn, self.ntot = {}, {}
        for line in open(os.path.join(datadir, "verner_A.dat")):
            if line.startswith("#") or not line.strip():
                continue
            t = line.split()
            Z, N, n, l = int(t[0]), int(t[1]), int(t[2]), int(t[3])
            sh = SHELL_OF_NL[(n, l)]
            self.ph1[(Z, N, sh)] = tuple(float(v) for v in t[4:10])
            self.ph1_txt[(Z, N, sh)] = Fraction(t[4].replace("E", "e"))
        for line in open(os.path.join(datadir, "verner_B.dat")):
            if line.startswith("#") or not line.strip():
                continue
            t = line.split()
            self.ph2[(int(t[0]), int(t[1]))] = tuple(float(v) for v in t[2:11])
        for line in open(os.path.join(datadir, "verner_C.dat")):
            if line.startswith("#") or not line.strip():
                continue
            t = line.split()
            self.ninn[int(t[0])] = int(t[1])
            self.ntot[int(t[0])] = int(t[2])

    # -- phfit2 --------------------------------------------------------------
    def nout(self, nz, ne):
        nout = self.ntot[ne]
        if nz == ne and nz > 18:
            nout = 7
        if nz == ne + 1 and nz in (20, 21, 22, 25, 26):
            nout = 7
        return nout

    def einn(self, nz, ne):
        if nz in (15, 17, 19) or (nz > 20 and nz != 26):
            return 0.0
        if ne < 3:
            return 1.0e30
        return self.ph1[(nz, ne, self.ninn[ne])][0]

    def phfit2(self, nz, ne, sh, e_ev):
        """Partial cross section of shell `sh` of ion (nz, ne) at photon energy e_ev, in Mb."""
        if nz < 1 or nz > 30 or ne < 1 or ne > nz:
            return 0.0
        nout = self.nout(nz, ne)
        if sh > nout:
            return 0.0
        if (nz, ne, sh) not in self.ph1:
            return 0.0
        eth, e0, s0, ya, p, yw = self.ph1[(nz, ne, sh)]
        if e_ev < eth:
            return 0.0
        nint = self.ninn[ne]
        einn = self.einn(nz, ne)
        # below the inner-shell edge the outermost shell carries the fit to the whole outer group
        if sh < nout and sh > nint and e_ev < einn:
            return 0.0
        if sh <= nint or e_ev >= einn:
            y = e_ev / e0
            q = 5.5 + L_OF_SHELL[sh] - 0.5 * p
            return s0 * ((y - 1.0) ** 2 + yw * yw) * y ** (-q) * (1.0 + math.sqrt(y / ya)) ** (-p)
        eth2, emax, e0, s0, ya, p, yw, y0, y1 = self.ph2[(nz, ne)]
        x = e_ev / e0 - y0
        y = math.sqrt(x * x + y1 * y1)
        return s0 * ((x - 1.0) ** 2 + yw * yw) * y ** (0.5 * p - 5.5) * (1.0 + math.sqrt(y / ya)) ** (-p)

    def shells(self, nz, ne):
        return sorted(sh for (z, n, sh) in self.ph1 if z == nz and n == ne)

    def total(self, nz, ne, e_ev, shells=None):
        if shells is None:
            shells = [s for s in self.shells(nz, ne) if s <= self.nout(nz, ne)]
        return math.fsum(self.phfit2(nz, ne, s, e_ev) for s in shells)

    # -- which sub-shells make up the "ion cross section" of the code ---------
    def valence_shells(self, nz, ne, emax_ev):
        """Sub-shells of the outer group (above the inner shells) whose threshold lies below
        emax_ev: the shells that can absorb a photon the code's source spectra can emit."""
        nint = self.ninn[ne]
        return [s for s in self.shells(nz, ne) if nint < s <= self.nout(nz, ne) and self.ph1[(nz, ne, s)][0] < emax_ev]

    def edges_ev(self, nz, ne):
        """All thresholds / branch switch energies of ion (nz, ne): exact decimal values."""
        return sorted(set(self.ph1_txt[(nz, ne, s)] for s in self.shells(nz, ne)))


def hz_per_ev(consts):
    """eV -> Hz factor as an exact rational from the code's constants (hex floats -> exact)."""
    return Fraction(consts["electronvolt"]) / Fraction(consts["planck"])


def load_tables(repo):
    return Tables(os.path.join(repo, "data"))


# ---------------------------------------------------------------------------
# the cross-section clauses
# ---------------------------------------------------------------------------
REL_TOL = 1.0e-10
# Input perturbation that covers every rounding difference between "E/E_0 in eV" (oracle) and
# "nu * (1/(E_0 * (eV/h)))" (code): each side makes at most 4 correctly rounded operations
# (<= 4 * 1.1e-16 relative); the code's threshold double E_th*(eV/h) is within 1.5 ulp of the
# exact product.  2e-15 (9 ulp) is above all of them and below the 16/32/64-ulp edge probes, which are therefore decided strictly.
DELTA = 2.0e-15
EMAX_SOURCE_EV = 54.4      # upper limit of every source spectrum of the code (4 x 13.6 eV)
IP_TOL = 5.0e-3            # Verner's thresholds are 4-digit roundings of (older) ionization potentials


def safe(name):
    return name.replace("+", "p")


def check_xsec(tb, name, rows, ev_hz, nu_max):
    """rows: [(nu_Hz, sigma_m2)] of one ion.  Returns (violations [(key, text, nu)], stats)."""
    z, n = IONS[name]
    valence = tb.valence_shells(z, n, EMAX_SOURCE_EV)
    allsh = [s for s in tb.shells(z, n) if s <= tb.nout(z, n)]
    ip_hz = NIST_IP_EV[name] * ev_hz
    einn = tb.einn(z, n)
    edges_hz = [float(e * Fraction(ev_hz)) for e in tb.edges_ev(z, n)]
    viol, seen = [], set()
    st = {"n": len(rows), "below_threshold": 0, "outer_fit_branch": 0, "inner_fit_branch": 0, "ambiguous_edge": 0,
          "edge_adjacent": 0, "edge_strict_zero": 0, "edge_strict_nonzero": 0, "compared_nonzero": 0, "max_rel_err": 0.0, "all_shell_compared": 0}

    def add(clause, text, nu):
        k = "xsec/%s/%s" % (safe(name), clause)
        if k not in seen or len(viol) < 20:
            viol.append((k, text, nu))
        seen.add(k)
    for nu, s in rows:
        if not math.isfinite(s):
            add("non-finite", "sigma_%s(nu=%.17g Hz) = %r" % (name, nu, s), nu)
            continue
        if s < 0.0:
            add("negative", "sigma_%s(nu=%.17g Hz) = %.17g m^2 < 0" % (name, nu, s), nu)
        # independent of the tables: zero below / non-zero above the ion's ionization potential
        if nu < ip_hz * (1.0 - IP_TOL):
            st["below_threshold"] += 1
            if s != 0.0:
                add("below-threshold-nonzero", "sigma_%s = %.6e m^2 at nu=%.17g Hz = %.4f eV, below the ionization potential %.3f eV"
                    % (name, s, nu, nu / ev_hz, NIST_IP_EV[name]), nu)
        elif nu > ip_hz * (1.0 + IP_TOL) and nu <= nu_max and s == 0.0:
            add("zero-above-threshold", "sigma_%s = 0 at nu=%.17g Hz = %.4f eV, above the ionization potential %.3f eV"
                % (name, nu, nu / ev_hz, NIST_IP_EV[name]), nu)
        near_edge = any(abs(nu - e) <= 150 * 2.3e-16 * e for e in edges_hz)
        if near_edge:
            st["edge_adjacent"] += 1
        # published fit, evaluated at the input and at the input moved by +-DELTA
        es = [nu * (1.0 - DELTA) / ev_hz, nu / ev_hz, nu * (1.0 + DELTA) / ev_hz]
        vals = [tb.total(z, n, e, valence) * MB_TO_M2 for e in es]
        lo, hi = min(vals), max(vals)
        if lo == 0.0 and hi > 0.0:
            st["ambiguous_edge"] += 1
        elif near_edge:
            st["edge_strict_zero" if hi == 0.0 else "edge_strict_nonzero"] += 1
        if hi > 0.0 and lo > 0.0:
            st["compared_nonzero"] += 1
            if es[1] < einn:
                st["outer_fit_branch"] += 1
            else:
                st["inner_fit_branch"] += 1
            st["max_rel_err"] = max(st["max_rel_err"], abs(s - vals[1]) / vals[1])
        if not (lo * (1.0 - REL_TOL) <= s <= hi * (1.0 + REL_TOL)):
            add("formula-mismatch", "sigma_%s(nu=%.17g Hz = %.6f eV) = %.17g m^2, published fit (shells %s) gives %.17g (allowed [%.17g, %.17g])"
                % (name, nu, es[1], s, valence, vals[1], lo * (1 - REL_TOL), hi * (1 + REL_TOL)), nu)
        elif es[2] <= EMAX_SOURCE_EV:
            # inside the range of the code's source spectra the ion cross section must be the
            # complete one (all shells of phfit2), not only the shells the code chose to add
            st["all_shell_compared"] += 1
            va = [tb.total(z, n, e, allsh) * MB_TO_M2 for e in es]
            if not (min(va) * (1.0 - REL_TOL) <= s <= max(va) * (1.0 + REL_TOL)):
                add("missing-shell", "sigma_%s(nu=%.17g Hz = %.6f eV) = %.17g m^2 but the sum over all shells %s is %.17g"
                    % (name, nu, es[1], s, allsh, va[1]), nu)
    return viol, st
