"""C18 clauses on recombination and charge-transfer rates (pure output predicates).

  rec/<ion>/non-finite, rec/<ion>/negative        for every T in [10, 1e9] K
  rec/<ion>/not-positive                          alpha(T) <= 0 for T <= 1e5 K (the balance divides by it)
  rec/H/increasing, rec/He/increasing             alpha must decrease with T
  ct/<reaction>/<ion>/non-finite|negative         only the reactions the ionization balance uses

Monotonicity slack: the grid contains 1-ulp neighbours; one evaluation involves a handful
of correctly rounded operations plus two pow() calls (<= 1 ulp each in glibc), so two
values whose exact difference is below ~4e-16 relative may come out in the wrong order.
A pair only counts as increasing if alpha(T2) > alpha(T1) (1 + 1e-14) for T2 > T1.
"""
import math

MONO_SLACK = 1.0e-14
T_POSITIVE_MAX = 1.0e5
MONOTONE_IONS = ("H", "He")


def safe(name):
    return name.replace("+", "p")


def check_rec(name, rows):
    """rows: sorted [(T, alpha)].  Returns violations [(key, text, T)], stats."""
    viol, seen = [], set()
    st = {"n": len(rows), "n_le_1e5": 0, "n_zero_above_1e5": 0, "monotone_pairs": 0, "first_zero_T": None}

    def add(clause, text, T):
        k = "rec/%s/%s" % (safe(name), clause)
        if k not in seen or len(viol) < 20:
            viol.append((k, text, T))
        seen.add(k)
    prev = None
    for T, a in rows:
        if not math.isfinite(a):
            add("non-finite", "alpha_%s(T=%.17g K) = %r" % (name, T, a), T)
            continue
        if a < 0.0:
            add("negative", "alpha_%s(T=%.17g K) = %.17g m^3/s < 0" % (name, T, a), T)
        if T <= T_POSITIVE_MAX:
            st["n_le_1e5"] += 1
            if not a > 0.0:
                add("not-positive", "alpha_%s(T=%.17g K) = %.17g is not strictly positive (T <= 1e5 K)" % (name, T, a), T)
        elif a == 0.0:
            st["n_zero_above_1e5"] += 1
            if st["first_zero_T"] is None:
                st["first_zero_T"] = T
        if name in MONOTONE_IONS and prev is not None:
            st["monotone_pairs"] += 1
            if a > prev[1] * (1.0 + MONO_SLACK):
                add("increasing", "alpha_%s rises with T: %.17g at %.17g K -> %.17g at %.17g K" % (name, prev[1], prev[0], a, T), T)
        prev = (T, a)
    return viol, st


def check_ct(reaction, name, rows):
    viol, seen = [], set()
    st = {"n": len(rows), "n_positive": 0}
    for T, T4, r in rows:
        k = None
        if not math.isfinite(r):
            k = "ct/%s/%s/non-finite" % (reaction, safe(name))
        elif r < 0.0:
            k = "ct/%s/%s/negative" % (reaction, safe(name))
        elif r > 0.0:
            st["n_positive"] += 1
        if abs(T4 - T * 1.0e-4) > 4e-16 * T4:
            k = "ct/%s/%s/harness-T4" % (reaction, safe(name))
        if k and (k not in seen or len(viol) < 20):
            viol.append((k, "%s rate of %s at T=%.17g K (T4=%.17g) = %r" % (reaction, name, T, T4, r), T))
            seen.add(k)
    return viol, st
