"""Reference cumulative distributions for the C18 sampler clauses.

Everything here is computed from the *physical definition* of each spectrum by
numerical quadrature (4-point Gauss-Legendre on 3000 panels + cubic Hermite
read-out), never from the tables the code builds:

  Planck            photon-number spectrum  n(nu) ~ B_nu/(h nu) ~ nu^2/(exp(h nu/kT)-1)
                    on [13.6 eV, 54.4 eV]
  H / He Lyman c.   Wood, Mathis & Ercolano (2004) eq. 8:  j_nu ~ nu^3 sigma(nu) exp(-h(nu-nu_0)/kT),
                    photon numbers j_nu/nu, sigma from the independent phfit2 oracle
  He two-photon     Drake, Victor & Dalgarno (1969) table (data/He2q.dat), piecewise linear in
                    y = nu/nu_0, nu_0 = 4.98e15 Hz, ionizing part y >= 13.6 eV only
  uniform           flat on [13.6 eV, 54.4 eV]
  masked            base spectrum times the mask's per-bin fraction

Tolerance of the clause  CDF_ref(nu(u)) = u, derived from the bin width (sound for ANY
monotone in-bin interpolation of a tabulated CDF, including returning the bin edge, and for
linear interpolation between two neighbouring temperature tables):
  a tabulated inverse-CDF sampler answers with a frequency in the table bin [nu_i, nu_i+1]
  whose table values bracket u (C_i <= u <= C_i+1), and |C_i - CDF_ref(nu_i)| <= E.  With h the
  knot spacing therefore
        CDF_ref(nu(u) - h) - E  <=  u  <=  CDF_ref(nu(u) + h) + E ,
  (for a temperature-interpolated answer: min / max over the bracketing temperatures), where
  E = E_quad + E_conv (+ Monte Carlo noise for the masked spectrum),
  E_quad = 2 * h^2/8 * TV(p')  is the trapezoid-rule error bound of a table with knot spacing h
           (factor 2: the normalisation carries the same error), and
  E_conv = the CDF change caused by the 2e-4 ambiguity of "13.6 eV" in Hz (the code base uses
           both 3.289e15 and 3.288465385e15).
  A table that is shifted by exactly one bin still satisfies this; such a shift is caught by the
  range and mask clauses instead.
"""
import bisect
import math
import os

NU_A = 3.288465385e15   # "13.6 eV in Hz" as used by the samplers' return values
NU_B = 3.289e15         # "13.6 eV in Hz" as used for the table ranges
CONV = 2.0e-4           # relative ambiguity between the two (1.63e-4), rounded up

_GL_X = (-0.8611363115940526, -0.3399810435848563, 0.3399810435848563, 0.8611363115940526)
_GL_W = (0.3478548451374538, 0.6521451548625461, 0.6521451548625461, 0.3478548451374538)


class RefCDF:
    """CDF of an (unnormalised) density `pdf` on [lo, hi] by panel-wise Gauss-Legendre quadrature."""

    def __init__(self, pdf, lo, hi, panels=3000):
        self.lo, self.hi, self.M = lo, hi, panels
        self.h = (hi - lo) / panels
        self.x = [lo + j * self.h for j in range(panels + 1)]
        self.x[-1] = hi
        self.p = [pdf(x) for x in self.x]
        cum = [0.0]
        hh = 0.5 * self.h
        for j in range(panels):
            c = self.x[j] + hh
            s = 0.0
            for gx, gw in zip(_GL_X, _GL_W):
                s += gw * pdf(c + hh * gx)
            cum.append(cum[-1] + s * hh)
        self.Z = cum[-1]
        self.cum = [c / self.Z for c in cum]
        self.pn = [p / self.Z for p in self.p]
        # total variation of the derivative of the normalised density (for the trapezoid bound)
        d = [(self.pn[j + 1] - self.pn[j]) / self.h for j in range(panels)]
        self.tv_dp = sum(abs(d[j + 1] - d[j]) for j in range(panels - 1))

    def cdf(self, x):
        if x <= self.lo:
            return 0.0
        if x >= self.hi:
            return 1.0
        j = min(self.M - 1, int((x - self.lo) / self.h))
        t = (x - self.x[j]) / self.h
        # cubic Hermite through (cum_j, p_j), (cum_j+1, p_j+1)
        t2, t3 = t * t, t * t * t
        return ((2 * t3 - 3 * t2 + 1) * self.cum[j] + (t3 - 2 * t2 + t) * self.h * self.pn[j]
                + (-2 * t3 + 3 * t2) * self.cum[j + 1] + (t3 - t2) * self.h * self.pn[j + 1])

    def pdfn(self, x):
        if x < self.lo or x > self.hi:
            return 0.0
        j = min(self.M - 1, int((x - self.lo) / self.h))
        t = (x - self.x[j]) / self.h
        return (1 - t) * self.pn[j] + t * self.pn[j + 1]


class Knots:
    """The documented table layout of a sampler: n knots equally spaced over [lo, hi]."""

    def __init__(self, lo, hi, n):
        self.lo, self.hi, self.n = lo, hi, n
        self.h = (hi - lo) / (n - 1.0)

    def knot(self, i):
        return self.lo + i * self.h

    def bin_of(self, nu):
        return max(0, min(self.n - 2, int(math.floor((nu - self.lo) / self.h))))


class Reference:
    """One or several RefCDFs (hull, e.g. the two neighbouring table temperatures) + table layout."""

    def __init__(self, refs, knots, extra_tol=0.0, note=""):
        self.refs, self.knots, self.extra_tol, self.note = refs, knots, extra_tol, note
        self.knot_cdf = [[r.cdf(knots.knot(i)) for i in range(knots.n)] for r in refs]
        self.e_quad = max(2.0 * knots.h * knots.h / 8.0 * r.tv_dp for r in refs)
        self.e_conv = max(CONV * (r.lo * r.pn[0] + r.hi * r.pn[-1]) for r in refs)

    def bin_mass(self, nu):
        b = self.knots.bin_of(nu)
        return max(kc[b + 1] - kc[b] for kc in self.knot_cdf)

    def interval(self, nu):
        """Interval of u values compatible with a sampled frequency nu: (lo, hi, E, cdf values at nu)."""
        h = self.knots.h
        e = self.e_quad + self.e_conv + self.extra_tol
        lo = min(r.cdf(nu - h) for r in self.refs)
        hi = max(r.cdf(nu + h) for r in self.refs)
        return lo - e, hi + e, e, [r.cdf(nu) for r in self.refs]


# ---------------------------------------------------------------------------
# densities
# ---------------------------------------------------------------------------

def planck_number_density(T, h_planck, k_boltz):
    a = h_planck / (k_boltz * T)

    def pdf(nu):
        return nu * nu / math.expm1(a * nu) * 1e-30
    return pdf


def lyc_density(sigma_of_nu, T, nu0, h_planck, k_boltz):
    a = h_planck / (k_boltz * T)

    def pdf(nu):
        return nu * nu * sigma_of_nu(nu) * math.exp(-a * (nu - nu0)) * 1e-8
    return pdf


def he2ph_table(repo):
    ys, As = [], []
    for line in open(os.path.join(repo, "data", "He2q.dat")):
        if line.startswith("#") or not line.strip():
            continue
        t = line.split()
        ys.append(float(t[0]))
        As.append(float(t[1]))
    return ys, As


def he2ph_density(repo, nu0=4.98e15):
    ys, As = he2ph_table(repo)

    def pdf(nu):
        y = nu / nu0
        if y >= 1.0 or y <= 0.0:
            return 0.0
        i = min(len(ys) - 2, bisect.bisect_right(ys, y) - 1)
        f = (y - ys[i]) / (ys[i + 1] - ys[i])
        return As[i] + f * (As[i + 1] - As[i])
    return pdf


class MemoSigma:
    """sigma(nu) with memoisation on the quadrature nodes (the same nodes serve every temperature)."""

    def __init__(self, fn):
        self.fn, self.memo = fn, {}

    def __call__(self, nu):
        v = self.memo.get(nu)
        if v is None:
            v = self.memo[nu] = self.fn(nu)
        return v


# ---------------------------------------------------------------------------
# the clauses
# ---------------------------------------------------------------------------

def check_pairs(sid, kind, pairs, ref, range_lo, range_hi, forbidden=None, do_cdf=True, regime=""):
    """pairs: [(u, nu)] sorted by u.  Returns (violations [(key, text, u)], stats dict)."""
    viol, stats = [], {"pairs": len(pairs), "max_norm_dev": 0.0, "max_abs_dev": 0.0, "bins_hit": 0}
    pre = "sampler/%s/%s" % (kind, regime + "/" if regime else "")
    seen = {}

    def add(clause, text, u):
        k = pre + clause
        if seen.get(k, 0) < 3:
            viol.append((k, "%s: %s" % (sid, text), u))
        seen[k] = seen.get(k, 0) + 1
    bins = set()
    prev = None
    for u, nu in pairs:
        if not math.isfinite(nu) or nu <= 0.0:
            add("non-finite", "u=%r gives frequency %r" % (u, nu), u)
            continue
        if nu < range_lo:
            add("below-range", "u=%.17g gives nu=%.9e Hz = %.6f x 13.6 eV, below the ionizing range [%.6e, %.6e] Hz"
                % (u, nu, nu / NU_A, range_lo, range_hi), u)
        elif nu > range_hi:
            add("above-range", "u=%.17g gives nu=%.9e Hz = %.6f x 13.6 eV, above the spectrum's range [%.6e, %.6e] Hz"
                % (u, nu, nu / NU_A, range_lo, range_hi), u)
        if prev is not None and nu < prev[1] * (1.0 - 1e-14):
            add("non-monotone", "nu(u) decreases: u=%.17g -> %.9e Hz but larger u=%.17g -> %.9e Hz" % (prev[0], prev[1], u, nu), u)
        prev = (u, nu)
        if forbidden and forbidden[0] <= nu < forbidden[1]:
            add("in-masked-band", "u=%.17g gives nu=%.9e Hz inside the band [%.9e, %.9e) Hz the mask removes completely"
                % (u, nu, forbidden[0], forbidden[1]), u)
        if do_cdf and ref is not None:
            lo, hi, e, c = ref.interval(nu)
            bins.add(ref.knots.bin_of(nu))
            dev = max((lo + e) - u, u - (hi - e), 0.0)   # distance of u from the one-bin bracket, before the error budget E
            stats["max_abs_dev"] = max(stats["max_abs_dev"], dev)
            stats["max_norm_dev"] = max(stats["max_norm_dev"], dev / e if e > 0 else 0.0)
            if not (lo <= u <= hi):
                add("cdf-mismatch", "u=%.17g gives nu=%.9e Hz where CDF_ref=%s; allowed u in [CDF_ref(nu-h), CDF_ref(nu+h)] +- %.3e = [%.9g, %.9g] "
                    "(h = table knot spacing %.4e Hz; budget: quadrature %.1e, 13.6eV-convention %.1e, other %.1e)"
                    % (u, nu, ["%.9g" % v for v in c], e, lo, hi, ref.knots.h, ref.e_quad, ref.e_conv, ref.extra_tol), u)
    stats["bins_hit"] = len(bins)
    return viol, stats
