"""Reader for the binary event traces written by the CMACIONIZE_VERIF hooks (src/VerifHooks.hpp)."""
import struct

EV = dict(LAUNCH=1, TERM_ABSORB=2, TERM_ESCAPE=3, TERM_NOREEMIT=4, TASK_START=5, TASK_END=6, TASK_ENQUEUE=7,
          ITER_BEGIN=8, ITER_END=9, SUBGRID_ACTIVE_BUFFER=10, QUEUE_SIZE=11, HYDRO_TASK=12, HYDRO_TASK_CHILD=13,
          HYDRO_STEP_BEGIN=14, HYDRO_STEP_END=15, HYDRO_PARENTS=16, DEADLOCK=17, HANDOVER=18, STAGING_BUFFER=19,
          HYDRO_TOTALS=20, REEMIT=21, PREMATURE_LAUNCH=22, TRACE_OVERFLOW=25)
NAME = {v: k for k, v in EV.items()}
REC = struct.Struct("<QIIQQQQ")

TASKTYPE = ["SOURCE_DISCRETE_PHOTON", "SOURCE_CONTINUOUS_PHOTON", "PHOTON_TRAVERSAL", "PHOTON_REEMIT", "TEMPERATURE_STATE",
            "SEND", "RECV", "GRADIENTSWEEP_INTERNAL", "GRADIENTSWEEP_EXTERNAL_NEIGHBOUR", "GRADIENTSWEEP_EXTERNAL_BOUNDARY",
            "SLOPE_LIMITER", "PREDICT_PRIMITIVES", "FLUXSWEEP_INTERNAL", "FLUXSWEEP_EXTERNAL_NEIGHBOUR",
            "FLUXSWEEP_EXTERNAL_BOUNDARY", "UPDATE_CONSERVED", "UPDATE_PRIMITIVES", "FLUSH_CONTINUOUS_PHOTON_BUFFERS"]
T = {n: i for i, n in enumerate(TASKTYPE)}


def read(path):
    """Returns the list of events (seq, thread, type, a, b, c, d) sorted by global sequence number."""
    with open(path, "rb") as f:
        data = f.read()
    n = len(data) // REC.size
    ev = list(REC.iter_unpack(data[:n * REC.size]))
    ev.sort(key=lambda e: e[0])
    return ev


# direction code -> sign triple, written from the enum's naming convention (P=+1, N=-1)
def _dirs():
    d = [(0, 0, 0)]
    sg = {"P": 1, "N": -1}
    for c in ["PPP", "PPN", "PNP", "PNN", "NPP", "NPN", "NNP", "NNN"]:
        d.append((sg[c[0]], sg[c[1]], sg[c[2]]))
    for ax in range(3):
        for c in ["PP", "PN", "NP", "NN"]:
            t = [0, 0, 0]
            others = [i for i in range(3) if i != ax]
            t[others[0]] = sg[c[0]]
            t[others[1]] = sg[c[1]]
            d.append(tuple(t))
    for ax in range(3):
        for c in "PN":
            t = [0, 0, 0]
            t[ax] = sg[c]
            d.append(tuple(t))
    return d


DIRS = _dirs()
DIRINDEX = {t: i for i, t in enumerate(DIRS)}


def opposite(d):
    t = DIRS[d]
    return DIRINDEX[(-t[0], -t[1], -t[2])]
