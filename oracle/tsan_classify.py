"""Classifier for ThreadSanitizer reports of the task-based runs (DESIGN.md 1.6).

A data race report is benign only if
 (a) one access is a *read* whose top frame is one of the lock-free reader accessors the
     scheduler uses as heuristics (TaskQueue::size, DensitySubGrid::get_largest_buffer_size /
     get_largest_buffer_index, DensitySubGrid::get_owning_thread) and the other access is made by a
     member function of the same class that maintains that field, or
 (b) both accesses are on source lines whose text names `global_run_flag` (the monotone stop flag).
Everything else is a violation of the property whose workload produced it.
"""
import glob
import os
import re

ACC = re.compile(r"^\s+(Previous )?(atomic )?(read|write|Read|Write|Atomic read|Atomic write) of size (\d+) at (0x[0-9a-f]+) by (.*?):?$")
FRAME = re.compile(r"^\s+#(\d+) (.*?) (/[^ :]+)(?::(\d+))?(?::\d+)? \(")
FRAME_NOSRC = re.compile(r"^\s+#(\d+) (.*?) <null> ")

READERS = {
    "TaskQueue::size": ("TaskQueue::",),
    "DensitySubGrid::get_largest_buffer_size": ("DensitySubGrid::set_largest_buffer",),
    "DensitySubGrid::get_largest_buffer_index": ("DensitySubGrid::set_largest_buffer",),
    "DensitySubGrid::get_owning_thread": ("DensitySubGrid::set_owning_thread",),
}


def _short(fn):
    fn = re.sub(r"<[^<>]*>", "", fn)
    fn = re.sub(r"<[^<>]*>", "", fn)
    fn = re.sub(r"\(.*$", "", fn)
    fn = re.sub(r"\.omp_outlined\.[._a-z0-9]*", "omp_outlined", fn)
    return fn.strip()


_linecache = {}


def _line_text(path, line):
    if path not in _linecache:
        try:
            _linecache[path] = open(path, errors="replace").read().splitlines()
        except OSError:
            _linecache[path] = []
    L = _linecache[path]
    return L[line - 1] if 0 < line <= len(L) else ""


def parse_reports(text):
    reports = []
    for block in text.split("=================="):
        if "WARNING: ThreadSanitizer" not in block:
            continue
        m = re.search(r"WARNING: ThreadSanitizer: (.*?) \(pid=", block)
        kind = m.group(1) if m else "unknown"
        accesses = []
        cur = None
        for line in block.splitlines():
            a = ACC.match(line)
            if a:
                cur = {"previous": bool(a.group(1)), "write": "rite" in a.group(3), "atomic": "tomic" in (a.group(2) or "") + a.group(3),
                       "frames": []}
                accesses.append(cur)
                continue
            if line.strip().startswith(("Location is", "Thread T", "Mutex ", "SUMMARY")):
                cur = None
                continue
            if cur is not None:
                f = FRAME.match(line)
                if f:
                    cur["frames"].append((_short(f.group(2)), f.group(3), int(f.group(4) or 0)))
                else:
                    f = FRAME_NOSRC.match(line)
                    if f:
                        cur["frames"].append((_short(f.group(2)), None, 0))
        reports.append({"kind": kind, "accesses": accesses, "text": block.strip()})
    return reports


def classify(rep):
    """Returns (benign_reason or None, key, summary)."""
    if rep["kind"] == "thread leak":
        return "thread-leak", "thread-leak", "thread leak"
    if rep["kind"] != "data race" or len(rep["accesses"]) < 2:
        return None, rep["kind"].replace(" ", "-"), rep["kind"]
    a, b = rep["accesses"][0], rep["accesses"][1]
    ta = a["frames"][0] if a["frames"] else ("?", None, 0)
    tb = b["frames"][0] if b["frames"] else ("?", None, 0)
    summary = "data race: %s %s (%s:%d) vs %s %s (%s:%d)" % (
        "write" if a["write"] else "read", ta[0], os.path.basename(ta[1] or "?"), ta[2],
        "write" if b["write"] else "read", tb[0], os.path.basename(tb[1] or "?"), tb[2])
    for x, y in ((a, b), (b, a)):
        tx = x["frames"][0] if x["frames"] else ("?", None, 0)
        ty = y["frames"][0] if y["frames"] else ("?", None, 0)
        if not x["write"] and tx[0] in READERS:
            if any(ty[0].startswith(p) for p in READERS[tx[0]]):
                return "heuristic-read:" + tx[0], "", summary
    la = _line_text(ta[1], ta[2]) if ta[1] else ""
    lb = _line_text(tb[1], tb[2]) if tb[1] else ""
    if "global_run_flag" in la and "global_run_flag" in lb:
        return "global_run_flag", "", summary
    key = "race/" + "|".join(sorted([ta[0], tb[0]]))
    return None, key, summary


def classify_dir(rundir, repo=None):
    out = []
    for p in sorted(glob.glob(os.path.join(rundir, "tsan.log*"))):
        for rep in parse_reports(open(p, errors="replace").read()):
            benign, key, summary = classify(rep)
            out.append({"benign": benign, "key": key, "summary": summary, "text": rep["text"]})
    return out


if __name__ == "__main__":
    import sys
    for r in classify_dir(sys.argv[1]):
        print(r["benign"] or ("VIOLATION " + r["key"]), "|", r["summary"])
