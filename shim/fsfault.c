/* fsfault.c - LD_PRELOAD file-system fault injector used by check C14.
 *
 * Counts every file-system *mutating* libc call whose path lies under
 * $FSFAULT_DIR (or whose fd / FILE* was opened there) from process start:
 *   rename renameat renameat2 | fopen fopen64 (write modes) | open open64 openat
 *   openat64 creat (writable / creating / truncating) | write writev pwrite
 *   pwrite64 fwrite | close fclose | unlink unlinkat remove | truncate ftruncate
 *   | fsync fdatasync | link linkat symlink
 * These are the calls as they really happen underneath std::ofstream with
 * libstdc++ (measured with strace/nm: fopen64 -> write/writev -> fclose) and in
 * RestartManager (rename).
 *
 * Every counted operation is appended to $FSFAULT_LOG ("OP <k> <type> ...").
 * The driver announces dump boundaries through fsfault_mark() ("MARK ...").
 * If $FSFAULT_AT = k > 0, the process is killed with _exit(86) at operation k:
 *   FSFAULT_MODE=before  before the call is made,
 *   FSFAULT_MODE=after   right after the call returned,
 *   FSFAULT_MODE=half    (write, writev, pwrite) after writing half the bytes.
 * _exit() does not flush user-space buffers: this is what the disk looks like
 * when the process dies at that moment (SIGKILL, OOM, wall-clock limit).
 * Not thread-safe on purpose (the dump code under test is sequential).
 */
#define _GNU_SOURCE
#include <dlfcn.h>
#include <errno.h>
#include <fcntl.h>
#include <stdarg.h>
#include <stdio.h>
#include <stdlib.h>
#include <string.h>
#include <sys/types.h>
#include <sys/uio.h>
#include <unistd.h>

#define MAXFD 4096
#define FIRE_EXIT 86

static int g_init = 0;
static char g_dir[4096];
static size_t g_dirlen = 0;
static int g_log = -1;
static long g_at = 0;
static int g_mode = 0; /* 0 before, 1 after, 2 half */
static long g_count = 0;
static char *g_fdpath[MAXFD];

static ssize_t (*real_write)(int, const void *, size_t);
static int (*real_open)(const char *, int, ...);
static int (*real_close)(int);

static void fs_init(void) {
  if (g_init) return;
  g_init = 1;
  real_write = dlsym(RTLD_NEXT, "write");
  real_open = dlsym(RTLD_NEXT, "open");
  real_close = dlsym(RTLD_NEXT, "close");
  const char *d = getenv("FSFAULT_DIR");
  if (d && *d) {
    if (!realpath(d, g_dir)) {
      strncpy(g_dir, d, sizeof(g_dir) - 1);
    }
    g_dirlen = strlen(g_dir);
    while (g_dirlen > 1 && g_dir[g_dirlen - 1] == '/') g_dir[--g_dirlen] = 0;
  }
  const char *l = getenv("FSFAULT_LOG");
  if (l && *l) g_log = real_open(l, O_WRONLY | O_CREAT | O_APPEND | O_CLOEXEC, 0644);
  const char *a = getenv("FSFAULT_AT");
  if (a) g_at = strtol(a, NULL, 10);
  const char *m = getenv("FSFAULT_MODE");
  if (m && !strcmp(m, "after")) g_mode = 1;
  else if (m && !strcmp(m, "half")) g_mode = 2;
}

static void logf_(const char *fmt, ...) {
  if (g_log < 0) return;
  char buf[8600];
  va_list ap;
  va_start(ap, fmt);
  int n = vsnprintf(buf, sizeof(buf) - 1, fmt, ap);
  va_end(ap);
  if (n < 0) return;
  if (n > (int)sizeof(buf) - 2) n = sizeof(buf) - 2;
  buf[n++] = '\n';
  ssize_t r = real_write(g_log, buf, n);
  (void)r;
}

/* is the (possibly relative) path under the watched directory? */
static int under(const char *path) {
  fs_init();
  if (!g_dirlen || !path) return 0;
  char tmp[4096];
  const char *p = path;
  if (path[0] != '/') {
    if (!getcwd(tmp, sizeof(tmp) - 1)) return 0;
    size_t l = strlen(tmp);
    snprintf(tmp + l, sizeof(tmp) - l, "/%s", path);
    p = tmp;
  }
  /* resolve the parent directory (the file itself may not exist) */
  char par[4096], res[4096];
  strncpy(par, p, sizeof(par) - 1);
  par[sizeof(par) - 1] = 0;
  char *slash = strrchr(par, '/');
  if (slash && slash != par) {
    *slash = 0;
    if (realpath(par, res)) {
      return !strncmp(res, g_dir, g_dirlen) && (res[g_dirlen] == 0 || res[g_dirlen] == '/');
    }
  }
  return !strncmp(p, g_dir, g_dirlen) && (p[g_dirlen] == '/' || p[g_dirlen] == 0);
}

static int tracked_fd(int fd) {
  fs_init();
  return fd >= 0 && fd < MAXFD && g_fdpath[fd] != NULL;
}
static void track_fd(int fd, const char *path) {
  if (fd >= 0 && fd < MAXFD) {
    free(g_fdpath[fd]);
    g_fdpath[fd] = strdup(path ? path : "?");
  }
}
static void untrack_fd(int fd) {
  if (fd >= 0 && fd < MAXFD && g_fdpath[fd]) {
    free(g_fdpath[fd]);
    g_fdpath[fd] = NULL;
  }
}

static void fire(const char *when) {
  logf_("FIRE %ld %s", g_count, when);
  _exit(FIRE_EXIT);
}
/* count one operation; returns 1 if this is the selected operation */
static int op_begin(const char *desc) {
  ++g_count;
  logf_("OP %ld %s", g_count, desc);
  if (g_at > 0 && g_count == g_at) {
    if (g_mode == 0) fire("before");
    return 1;
  }
  return 0;
}
static void op_end(int selected) {
  if (selected) fire(g_mode == 2 ? "after(half-not-applicable)" : "after");
}

/* exported: dump boundary markers from the driver */
void fsfault_mark(const char *what, unsigned long n) {
  fs_init();
  logf_("MARK %s %lu at %ld", what, n, g_count);
}

/* ---- rename family ---------------------------------------------------- */
int rename(const char *o, const char *n) {
  static int (*real)(const char *, const char *);
  if (!real) real = dlsym(RTLD_NEXT, "rename");
  if (!(under(o) || under(n))) return real(o, n);
  char d[8400];
  snprintf(d, sizeof(d), "rename %s %s", o, n);
  int sel = op_begin(d);
  int r = real(o, n);
  int e = errno;
  logf_("RET %ld %d errno=%d", g_count, r, r ? e : 0);
  op_end(sel);
  errno = e;
  return r;
}
int renameat(int od, const char *o, int nd, const char *n) {
  static int (*real)(int, const char *, int, const char *);
  if (!real) real = dlsym(RTLD_NEXT, "renameat");
  if (!(under(o) || under(n))) return real(od, o, nd, n);
  char d[8400];
  snprintf(d, sizeof(d), "rename %s %s", o, n);
  int sel = op_begin(d);
  int r = real(od, o, nd, n);
  int e = errno;
  op_end(sel);
  errno = e;
  return r;
}
int renameat2(int od, const char *o, int nd, const char *n, unsigned int fl) {
  static int (*real)(int, const char *, int, const char *, unsigned int);
  if (!real) real = dlsym(RTLD_NEXT, "renameat2");
  if (!(under(o) || under(n))) return real(od, o, nd, n, fl);
  char d[8400];
  snprintf(d, sizeof(d), "rename %s %s", o, n);
  int sel = op_begin(d);
  int r = real(od, o, nd, n, fl);
  int e = errno;
  op_end(sel);
  errno = e;
  return r;
}

/* ---- open family ------------------------------------------------------ */
static int mutating_flags(int flags) {
  return (flags & (O_WRONLY | O_RDWR | O_CREAT | O_TRUNC)) != 0;
}
static int open_common(const char *name, int (*call)(void *), void *ctx, const char *path, int flags) {
  if (!(mutating_flags(flags) && under(path))) return call(ctx);
  char d[4300];
  snprintf(d, sizeof(d), "%s %s flags=%s%s%s%s", name, path,
           (flags & O_RDWR) ? "RDWR" : (flags & O_WRONLY) ? "WRONLY" : "RDONLY",
           (flags & O_CREAT) ? "|CREAT" : "", (flags & O_TRUNC) ? "|TRUNC" : "",
           (flags & O_APPEND) ? "|APPEND" : "");
  int sel = op_begin(d);
  int fd = call(ctx);
  int e = errno;
  if (fd >= 0) track_fd(fd, path);
  op_end(sel);
  errno = e;
  return fd;
}
struct open_ctx {
  int (*real)(const char *, int, ...);
  int (*realat)(int, const char *, int, ...);
  int dirfd;
  const char *path;
  int flags;
  mode_t mode;
};
static int call_open(void *v) {
  struct open_ctx *c = v;
  return c->real(c->path, c->flags, c->mode);
}
static int call_openat(void *v) {
  struct open_ctx *c = v;
  return c->realat(c->dirfd, c->path, c->flags, c->mode);
}
#define GETMODE(flags, last)                                                   \
  mode_t mode = 0;                                                             \
  if ((flags) & (O_CREAT | __O_TMPFILE)) {                                     \
    va_list ap;                                                                \
    va_start(ap, last);                                                        \
    mode = (mode_t)va_arg(ap, int);                                            \
    va_end(ap);                                                                \
  }
int open(const char *path, int flags, ...) {
  GETMODE(flags, flags)
  fs_init();
  struct open_ctx c = {real_open, NULL, 0, path, flags, mode};
  return open_common("open", call_open, &c, path, flags);
}
int open64(const char *path, int flags, ...) {
  static int (*real)(const char *, int, ...);
  if (!real) real = dlsym(RTLD_NEXT, "open64");
  GETMODE(flags, flags)
  struct open_ctx c = {real, NULL, 0, path, flags, mode};
  return open_common("open", call_open, &c, path, flags);
}
int openat(int dirfd, const char *path, int flags, ...) {
  static int (*real)(int, const char *, int, ...);
  if (!real) real = dlsym(RTLD_NEXT, "openat");
  GETMODE(flags, flags)
  struct open_ctx c = {NULL, real, dirfd, path, flags, mode};
  return open_common("open", call_openat, &c, path, flags);
}
int openat64(int dirfd, const char *path, int flags, ...) {
  static int (*real)(int, const char *, int, ...);
  if (!real) real = dlsym(RTLD_NEXT, "openat64");
  GETMODE(flags, flags)
  struct open_ctx c = {NULL, real, dirfd, path, flags, mode};
  return open_common("open", call_openat, &c, path, flags);
}
int creat(const char *path, mode_t mode) {
  fs_init();
  struct open_ctx c = {real_open, NULL, 0, path, O_WRONLY | O_CREAT | O_TRUNC, mode};
  return open_common("open", call_open, &c, path, c.flags);
}

static FILE *fopen_common(FILE *(*real)(const char *, const char *), const char *path, const char *mode) {
  if (!(mode && strpbrk(mode, "wa+") && under(path))) return real(path, mode);
  char d[4300];
  snprintf(d, sizeof(d), "fopen %s mode=%s%s", path, mode, strchr(mode, 'w') ? " (create+truncate)" : "");
  int sel = op_begin(d);
  FILE *f = real(path, mode);
  int e = errno;
  if (f) track_fd(fileno(f), path);
  op_end(sel);
  errno = e;
  return f;
}
FILE *fopen(const char *path, const char *mode) {
  static FILE *(*real)(const char *, const char *);
  if (!real) real = dlsym(RTLD_NEXT, "fopen");
  return fopen_common(real, path, mode);
}
FILE *fopen64(const char *path, const char *mode) {
  static FILE *(*real)(const char *, const char *);
  if (!real) real = dlsym(RTLD_NEXT, "fopen64");
  return fopen_common(real, path, mode);
}

/* ---- write family ----------------------------------------------------- */
ssize_t write(int fd, const void *buf, size_t count) {
  fs_init();
  if (!tracked_fd(fd)) return real_write(fd, buf, count);
  char d[4300];
  snprintf(d, sizeof(d), "write %s bytes=%zu", g_fdpath[fd], count);
  int sel = op_begin(d);
  if (sel && g_mode == 2) {
    ssize_t r = real_write(fd, buf, count / 2);
    logf_("HALF %ld wrote %zd of %zu", g_count, r, count);
    fire("half");
  }
  ssize_t r = real_write(fd, buf, count);
  int e = errno;
  op_end(sel);
  errno = e;
  return r;
}
ssize_t writev(int fd, const struct iovec *iov, int iovcnt) {
  static ssize_t (*real)(int, const struct iovec *, int);
  if (!real) real = dlsym(RTLD_NEXT, "writev");
  if (!tracked_fd(fd)) return real(fd, iov, iovcnt);
  size_t total = 0;
  for (int i = 0; i < iovcnt; ++i) total += iov[i].iov_len;
  char d[4300];
  snprintf(d, sizeof(d), "writev %s bytes=%zu", g_fdpath[fd], total);
  int sel = op_begin(d);
  if (sel && g_mode == 2) {
    size_t left = total / 2, done = 0;
    for (int i = 0; i < iovcnt && left > 0; ++i) {
      size_t n = iov[i].iov_len < left ? iov[i].iov_len : left;
      ssize_t r = real_write(fd, iov[i].iov_base, n);
      if (r > 0) done += (size_t)r;
      left -= n;
    }
    logf_("HALF %ld wrote %zu of %zu", g_count, done, total);
    fire("half");
  }
  ssize_t r = real(fd, iov, iovcnt);
  int e = errno;
  op_end(sel);
  errno = e;
  return r;
}
static ssize_t pwrite_common(ssize_t (*real)(int, const void *, size_t, off_t), int fd, const void *buf,
                             size_t count, off_t off) {
  if (!tracked_fd(fd)) return real(fd, buf, count, off);
  char d[4300];
  snprintf(d, sizeof(d), "pwrite %s bytes=%zu off=%lld", g_fdpath[fd], count, (long long)off);
  int sel = op_begin(d);
  if (sel && g_mode == 2) {
    ssize_t r = real(fd, buf, count / 2, off);
    logf_("HALF %ld wrote %zd of %zu", g_count, r, count);
    fire("half");
  }
  ssize_t r = real(fd, buf, count, off);
  int e = errno;
  op_end(sel);
  errno = e;
  return r;
}
ssize_t pwrite(int fd, const void *buf, size_t count, off_t off) {
  static ssize_t (*real)(int, const void *, size_t, off_t);
  if (!real) real = dlsym(RTLD_NEXT, "pwrite");
  return pwrite_common(real, fd, buf, count, off);
}
ssize_t pwrite64(int fd, const void *buf, size_t count, off_t off) {
  static ssize_t (*real)(int, const void *, size_t, off_t);
  if (!real) real = dlsym(RTLD_NEXT, "pwrite64");
  return pwrite_common(real, fd, buf, count, off);
}
/* buffered stdio writes on a watched FILE: counted (before/after only) so that
 * an implementation that starts using them does not go unnoticed */
size_t fwrite(const void *p, size_t sz, size_t n, FILE *f) {
  static size_t (*real)(const void *, size_t, size_t, FILE *);
  if (!real) real = dlsym(RTLD_NEXT, "fwrite");
  int fd = fileno(f);
  if (!tracked_fd(fd)) return real(p, sz, n, f);
  char d[4300];
  snprintf(d, sizeof(d), "fwrite %s bytes=%zu", g_fdpath[fd], sz * n);
  int sel = op_begin(d);
  size_t r = real(p, sz, n, f);
  if (sel) fflush(f);
  op_end(sel);
  return r;
}

/* ---- close family ----------------------------------------------------- */
int close(int fd) {
  fs_init();
  if (!tracked_fd(fd)) return real_close(fd);
  char d[4300];
  snprintf(d, sizeof(d), "close %s", g_fdpath[fd]);
  int sel = op_begin(d);
  int r = real_close(fd);
  int e = errno;
  untrack_fd(fd);
  op_end(sel);
  errno = e;
  return r;
}
int fclose(FILE *f) {
  static int (*real)(FILE *);
  if (!real) real = dlsym(RTLD_NEXT, "fclose");
  int fd = fileno(f);
  if (!tracked_fd(fd)) return real(f);
  char d[4300];
  snprintf(d, sizeof(d), "fclose %s", g_fdpath[fd]);
  int sel = op_begin(d);
  untrack_fd(fd); /* before the real call: glibc's internal close is not seen */
  int r = real(f);
  int e = errno;
  op_end(sel);
  errno = e;
  return r;
}

/* ---- unlink / truncate / sync / link ---------------------------------- */
#define PATH_OP1(NAME, LABEL)                                                  \
  int NAME(const char *path) {                                                 \
    static int (*real)(const char *);                                          \
    if (!real) real = dlsym(RTLD_NEXT, #NAME);                                 \
    if (!under(path)) return real(path);                                       \
    char d[4300];                                                              \
    snprintf(d, sizeof(d), LABEL " %s", path);                                 \
    int sel = op_begin(d);                                                     \
    int r = real(path);                                                        \
    int e = errno;                                                             \
    op_end(sel);                                                               \
    errno = e;                                                                 \
    return r;                                                                  \
  }
PATH_OP1(unlink, "unlink")
PATH_OP1(remove, "unlink")
int unlinkat(int dfd, const char *path, int fl) {
  static int (*real)(int, const char *, int);
  if (!real) real = dlsym(RTLD_NEXT, "unlinkat");
  if (!under(path)) return real(dfd, path, fl);
  char d[4300];
  snprintf(d, sizeof(d), "unlink %s", path);
  int sel = op_begin(d);
  int r = real(dfd, path, fl);
  int e = errno;
  op_end(sel);
  errno = e;
  return r;
}
int truncate(const char *path, off_t len) {
  static int (*real)(const char *, off_t);
  if (!real) real = dlsym(RTLD_NEXT, "truncate");
  if (!under(path)) return real(path, len);
  char d[4300];
  snprintf(d, sizeof(d), "truncate %s len=%lld", path, (long long)len);
  int sel = op_begin(d);
  int r = real(path, len);
  int e = errno;
  op_end(sel);
  errno = e;
  return r;
}
int ftruncate(int fd, off_t len) {
  static int (*real)(int, off_t);
  if (!real) real = dlsym(RTLD_NEXT, "ftruncate");
  if (!tracked_fd(fd)) return real(fd, len);
  char d[4300];
  snprintf(d, sizeof(d), "truncate %s len=%lld", g_fdpath[fd], (long long)len);
  int sel = op_begin(d);
  int r = real(fd, len);
  int e = errno;
  op_end(sel);
  errno = e;
  return r;
}
#define FD_OP1(NAME)                                                           \
  int NAME(int fd) {                                                           \
    static int (*real)(int);                                                   \
    if (!real) real = dlsym(RTLD_NEXT, #NAME);                                 \
    if (!tracked_fd(fd)) return real(fd);                                      \
    char d[4300];                                                              \
    snprintf(d, sizeof(d), "sync %s", g_fdpath[fd]);                           \
    int sel = op_begin(d);                                                     \
    int r = real(fd);                                                          \
    int e = errno;                                                             \
    op_end(sel);                                                               \
    errno = e;                                                                 \
    return r;                                                                  \
  }
FD_OP1(fsync)
FD_OP1(fdatasync)
#define PATH_OP2(NAME)                                                         \
  int NAME(const char *a, const char *b) {                                     \
    static int (*real)(const char *, const char *);                            \
    if (!real) real = dlsym(RTLD_NEXT, #NAME);                                 \
    if (!(under(a) || under(b))) return real(a, b);                            \
    char d[8400];                                                              \
    snprintf(d, sizeof(d), "link %s %s", a, b);                                \
    int sel = op_begin(d);                                                     \
    int r = real(a, b);                                                        \
    int e = errno;                                                             \
    op_end(sel);                                                               \
    errno = e;                                                                 \
    return r;                                                                  \
  }
PATH_OP2(link)
PATH_OP2(symlink)
int linkat(int od, const char *a, int nd, const char *b, int fl) {
  static int (*real)(int, const char *, int, const char *, int);
  if (!real) real = dlsym(RTLD_NEXT, "linkat");
  if (!(under(a) || under(b))) return real(od, a, nd, b, fl);
  char d[8400];
  snprintf(d, sizeof(d), "link %s %s", a, b);
  int sel = op_begin(d);
  int r = real(od, a, nd, b, fl);
  int e = errno;
  op_end(sel);
  errno = e;
  return r;
}
