#!/bin/bash
# Builds /repo's working tree with the project's own configuration and the guard
# CMACIONIZE_VERIF *off*, builds the 55 pinned unit tests and runs them.
set -u
cd "$(dirname "$0")/.."
REPO=${CMI_REPO:-/repo}
B=${CMI_BUILD_ROOT:-$PWD/.build}/baseline-off
TESTS=$(python3 - <<'P'
import json
b=json.load(open('/root/.vp/BASELINE.json'))
print(" ".join(sorted(t.split("::")[0] for t in b["stable_pass"])))
P
)
mkdir -p "$B"
if [ ! -f "$B/build.ninja" ]; then
  cmake -G Ninja -S "$REPO" -B "$B" -DCMAKE_BUILD_TYPE=RelWithDebInfo \
     "-DCMAKE_CXX_FLAGS_RELWITHDEBINFO=-O2 -g -DNDEBUG -Wno-error -Wno-cpp" > "$B/configure.log" 2>&1 || { echo "configure failed"; tail -20 "$B/configure.log"; exit 2; }
fi
if grep -q CMACIONIZE_VERIF "$B/CMakeCache.txt"; then echo "guard leaked into baseline build"; exit 2; fi
ninja -C "$B" -j16 $TESTS > "$B/build.log" 2>&1 || { echo "build failed"; tail -30 "$B/build.log"; exit 2; }
RE="^($(echo $TESTS | tr ' ' '|'))\$"
(cd "$B" && ctest -j8 --timeout 900 -R "$RE" 2>&1 | tee "$B/ctest.log" | tail -8)
np=$(grep -c "Passed" "$B/ctest.log")
nf=$(grep -Ec "\*\*\*Failed|\*\*\*Exception|\*\*\*Timeout|Not Run" "$B/ctest.log")
echo "baseline (guard off): passed=$np failed=$nf expected=55"
[ "$np" -eq 55 ] && [ "$nf" -eq 0 ]
