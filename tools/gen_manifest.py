#!/usr/bin/env python3
"""Regenerates MANIFEST.json from the table below (kept in one place so it stays valid)."""
import json, os, subprocess
V = os.path.dirname(os.path.dirname(os.path.abspath(__file__)))
props = [json.loads(l) for l in open(os.path.join(V, "properties.jsonl"))]
ids = [p["id"] for p in props]

# id -> (category, technique, level text, level note, design ref)
CHECKS = {}
def reg(i, cat, tech, text, note, ref=None):
    CHECKS[i] = (cat, tech, text, note, ref or ("DESIGN.md section 2, " + i))

exec(open(os.path.join(V, "tools", "manifest_table.py")).read())

def hook_commits():
    try:
        out = subprocess.run(["git", "-C", "/repo", "log", "--format=%H %s"], capture_output=True, text=True).stdout
        return [l.split()[0] for l in out.splitlines() if l.split(" ", 1)[1].startswith("verif-hook:")][::-1]
    except Exception:
        return []

m = {
 "version": 1,
 "setup_cmd": "python3 tools/setup.py",
 "hooks": {
  "guard": "CMACIONIZE_VERIF",
  "enable": "tools/vbuild <hooks|asan|tsan> configures /repo with CMAKE_BUILD_TYPE=Verif and CMAKE_CXX_FLAGS_VERIF containing -DCMACIONIZE_VERIF (checks call this themselves and rebuild whenever the working tree content changed)",
  "baseline_off_cmd": "bash tools/baseline_off.sh",
  "source_commits": hook_commits(),
  "add_only": True,
 },
 "engines": [
  {"name": "vbuild", "path": "lib/common.py", "serves_properties": sorted(CHECKS), "kind_free_text": "variant builds (hooks / asan+ubsan / clang tsan+archer) of the current working tree, harness compilation, watchdog, verdict+evidence writer"},
  {"name": "harnesses", "path": "harness/", "serves_properties": sorted(CHECKS), "kind_free_text": "in-process C++ harnesses driving the real classes with generated hostile inputs, each with an independently written oracle"},
  {"name": "trace-checkers", "path": "oracle/", "serves_properties": [i for i in sorted(CHECKS) if i in ("C01","C04","C07","C09","C10","C12","C14")], "kind_free_text": "offline checkers over event traces / state dumps recorded by the CMACIONIZE_VERIF hooks in the real binary; TSan report classifier; file-system fault injector"},
 ],
 "checks": [],
 "notes": "All checks decide by observing executions of the real code (runtime monitoring + sanitizers). Exit 0 held on what was explored, 1 VIOLATION, 2 inconclusive/harness failure. VERIF_SEED seeds every generator; CMI_REPO overrides the examined tree (default /repo).",
 "not_applicable": [],
}
for i in ids:
    if i in CHECKS:
        cat, tech, text, note, ref = CHECKS[i]
        m["checks"].append({
            "property_id": i,
            "quick_cmd": "./check %s --tier quick" % i,
            "thorough_cmd": "./check %s --tier thorough" % i,
            "evidence_file": "/verif/evidence/%s.json" % i,
            "replay_cmd_template": "./check %s --replay {path}" % i,
            "engine": "harnesses",
            "level_claimed": {"category": cat, "text": text, "design_ref": ref},
            "level_note": note,
            "technique": tech,
        })
    else:
        m["not_applicable"].append({"property_id": i, "reason": NOT_YET.get(i, "check not built yet in this session (runtime monitoring applies; see DESIGN.md section 2); not claimed until its check exists and is silent on the unchanged tree")})
json.dump(m, open(os.path.join(V, "MANIFEST.json"), "w"), indent=1)
print("MANIFEST.json: %d checks, %d not claimed" % (len(m["checks"]), len(m["not_applicable"])))
