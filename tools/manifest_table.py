# table of claimed checks; exec'd by gen_manifest.py
NOT_YET = {}
reg("C19", "exploration", "runtime monitor: exact integer shadow model of the time line over generated request histories",
    "Every answer of the real TimeLine::advance over ~4e7 (quick) generated requests is compared with an exact integer shadow time line (steps recovered exactly via frexp); restored twins are compared bit for bit. Sampling of an unbounded history space, hence exploration.",
    "Trusts the shadow model (40 lines, integers only) and that generated configurations keep max >= min; physical-time strictness only demanded above 8 ulp.")
