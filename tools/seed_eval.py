#!/usr/bin/env python3
"""Evaluate a seeded change: tools/seed_eval.py <dir with patch.diff> <property id> [more property ids]

Applies the patch to a scratch clone of /repo (outside /repo and /verif), verifies that the pinned suite still
passes (unless --skip-pinned), runs the quick check(s) of the given properties against the clone and reports
exit codes and violation keys.  Evidence of these runs goes to a scratch directory."""
import json, os, shutil, subprocess, sys, hashlib, time

V = os.path.dirname(os.path.dirname(os.path.abspath(__file__)))
args = [a for a in sys.argv[1:] if not a.startswith("--")]
sdir, props = os.path.abspath(args[0]), args[1:]
name = os.path.basename(sdir.rstrip("/"))
clone = "/scratch/mut-" + name
shutil.rmtree(clone, ignore_errors=True)
subprocess.check_call(["git", "clone", "-q", "/repo", clone])
r = subprocess.run(["git", "-C", clone, "apply", os.path.join(sdir, "patch.diff")], capture_output=True, text=True)
if r.returncode != 0:
    print("PATCH DOES NOT APPLY:", r.stderr[-500:]); sys.exit(2)
res = {"seed": name, "applies": True, "time": time.strftime("%Y-%m-%d %H:%M")}
if "--skip-pinned" not in sys.argv:
    p = subprocess.run(["bash", "/tmp/seedtools/run_pinned.sh", clone], capture_output=True, text=True)
    res["pinned_55_pass"] = "pinned tests passed: 55 of 55" in p.stdout
    print(p.stdout[-300:])
    shutil.rmtree(os.path.join(clone, "_pinned_build"), ignore_errors=True)
# optional demonstration: meta.json may hold "demo_cmd" with {clone}, {bin} and {dir} placeholders; it is run on the changed
# tree (expected to fail) and, after `git stash`, on the unchanged tree (expected to pass)
meta = {}
if os.path.exists(os.path.join(sdir, "meta.json")):
    meta = json.load(open(os.path.join(sdir, "meta.json")))
if meta.get("demo_cmd") and "--skip-demo" not in sys.argv:
    def build_b():
        b = os.path.join(clone, "_b")
        if not os.path.exists(os.path.join(b, "build.ninja")):
            subprocess.run(["cmake", "-G", "Ninja", "-S", clone, "-B", b, "-DCMAKE_BUILD_TYPE=RelWithDebInfo",
                            "-DCMAKE_CXX_FLAGS_RELWITHDEBINFO=-O2 -g -DCMACIONIZE_VERIF -Wno-error -Wno-cpp", "-DCMAKE_EXPORT_COMPILE_COMMANDS=ON"],
                           capture_output=True)
        return subprocess.run(["ninja", "-C", b, "-j12", "CMacIonize"], capture_output=True, text=True).returncode
    def demo():
        rc = build_b()
        if rc != 0:
            return {"build_rc": rc}
        cmd = meta["demo_cmd"].format(clone=clone, bin=os.path.join(clone, "_b", "rundir", "CMacIonize"), dir=sdir)
        try:
            p = subprocess.run(cmd, shell=True, capture_output=True, text=True, timeout=int(meta.get("demo_timeout", 1800)), cwd=sdir)
            return {"exit": p.returncode, "tail": (p.stdout + p.stderr)[-600:]}
        except subprocess.TimeoutExpired:
            return {"exit": "timeout"}
    res["demo_with_change"] = demo()
    subprocess.check_call(["git", "-C", clone, "stash", "-q"])
    res["demo_without_change"] = demo()
    subprocess.check_call(["git", "-C", clone, "stash", "pop", "-q"])
    shutil.rmtree(os.path.join(clone, "_b"), ignore_errors=True)
    print("demo with change:", res["demo_with_change"].get("exit"), "| without:", res["demo_without_change"].get("exit"))
env = dict(os.environ, CMI_REPO=clone, CMI_EVIDENCE_DIR="/scratch/mut-evidence-" + name, CMI_RUN_ROOT="/scratch/mut-run-" + name)
res["checks"] = {}
for prop in props:
    t0 = time.time()
    p = subprocess.run([os.path.join(V, "check"), prop, "--tier", "quick"], capture_output=True, text=True, env=env, cwd=V)
    keys = sorted(set(l.split("key=")[1].split()[0] for l in p.stdout.splitlines() if l.strip().startswith("key=")))
    res["checks"][prop] = {"exit": p.returncode, "keys": keys[:40], "wall_s": round(time.time() - t0, 1), "last_line": (p.stdout.strip().splitlines() or [""])[-1]}
    print(prop, "exit", p.returncode, "keys", keys[:12], "wall %.0fs" % (time.time() - t0))
# clean the clone and its variant builds
tag = hashlib.sha256(os.path.realpath(clone).encode()).hexdigest()[:8]
for d in os.listdir(os.path.join(V, ".build")):
    if d.endswith("-" + tag):
        shutil.rmtree(os.path.join(V, ".build", d), ignore_errors=True)
shutil.rmtree(clone, ignore_errors=True)
shutil.rmtree("/scratch/mut-run-" + name, ignore_errors=True)
# re-evaluations after a check was strengthened (--skip-pinned --skip-demo) keep the earlier confirmation and the earlier verdicts
evp = os.path.join(sdir, "eval.json")
if os.path.exists(evp):
    old = json.load(open(evp))
    for k in ("pinned_55_pass", "demo_with_change", "demo_without_change"):
        if k not in res and k in old:
            res[k] = old[k]
    hist = old.get("history", [])
    hist.append({"time": old.get("time"), "checks": {k: {"exit": v["exit"], "keys": v["keys"][:6]} for k, v in old.get("checks", {}).items()}})
    res["history"] = hist
json.dump(res, open(evp, "w"), indent=1)
print(json.dumps(res)[:600])
