#!/usr/bin/env python3
"""Summarise seeded/*/eval.json: merges what was run into meta.json and prints the catch matrix (markdown)."""
import json, os, glob
V = os.path.dirname(os.path.dirname(os.path.abspath(__file__)))
rows = []
for d in sorted(glob.glob(os.path.join(V, "seeded", "C*-*"))):
    name = os.path.basename(d)
    mp, ep = os.path.join(d, "meta.json"), os.path.join(d, "eval.json")
    if not os.path.exists(mp):
        continue
    m = json.load(open(mp))
    e = json.load(open(ep)) if os.path.exists(ep) else None
    if e:
        ran = {"pinned_55_pass": e.get("pinned_55_pass"),
               "demonstration": {"with_change_exit": (e.get("demo_with_change") or {}).get("exit"), "without_change_exit": (e.get("demo_without_change") or {}).get("exit")},
               "checks": {k: {"exit": v["exit"], "keys": v["keys"][:8], "wall_s": v["wall_s"]} for k, v in e.get("checks", {}).items()},
               "how": "tools/seed_eval.py: clone of /repo + git apply patch.diff, /tmp/seedtools/run_pinned.sh (55 pinned tests), demo_cmd on the changed and (git stash) unchanged tree, then CMI_REPO=<clone> ./check <property> --tier quick",
               "when": e.get("time"), "earlier_verdicts": e.get("history", [])}
        m["ran"] = ran
        if m.get("reruns"):
            pass
        json.dump(m, open(mp, "w"), indent=1)
    ran = m.get("ran", {})
    chk = ran.get("checks", {})
    caught = [k for k, v in chk.items() if v["exit"] == 1]
    missed = [k for k, v in chk.items() if v["exit"] != 1]
    keys = ", ".join(sorted(set(k for c in caught for k in chk[c]["keys"]))[:4])
    rows.append("| %s | %s | %s | %s | %s | %s |" % (name, m.get("property"), m.get("what", "")[:110], ("yes" if ran.get("pinned_55_pass") else "?"),
                                                   "%s/%s" % (ran.get("demonstration", {}).get("with_change_exit"), ran.get("demonstration", {}).get("without_change_exit")),
                                                   ("**caught** by " + ", ".join(caught) + " (" + keys + ")") if caught else ("MISSED by " + ", ".join(missed) if chk else "not evaluated")))
print("| seed | property | change | pinned 55 pass | demo exit with/without | result of ./check --tier quick |")
print("|---|---|---|---|---|---|")
print("\n".join(rows))
