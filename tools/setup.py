#!/usr/bin/env python3
"""setup_cmd: pre-build the three instrumented variants of /repo's working tree (offline)."""
import os, sys
sys.path.insert(0, os.path.join(os.path.dirname(os.path.abspath(__file__)), "..", "lib"))
import common
for v in ("hooks", "tsan", "asan"):
    common.vbuild(v)
print("setup ok")
