#!/usr/bin/env python3
import os, subprocess, re
V=os.path.dirname(os.path.dirname(os.path.abspath(__file__)))
tab=subprocess.run(["python3",os.path.join(V,"tools","seed_report.py")],capture_output=True,text=True).stdout
p=os.path.join(V,"DESIGN.md"); s=open(p).read()
a=s.index("<!-- SEED-TABLE-BEGIN -->")+len("<!-- SEED-TABLE-BEGIN -->"); b=s.index("<!-- SEED-TABLE-END -->")
open(p,"w").write(s[:a]+"\n"+tab+s[b:])
print("updated")
